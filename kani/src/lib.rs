//! Kani harnesses that validate the ASSUMED contracts of the `time` crate stand-ins
//! (specs/prelude/time.rs, time_date.rs) and of `i128::try_from(u128)` (specs/prelude/std_conv.rs)
//! against the real crate, over the full input domain (no unwinding bound: all harnesses are loop-free).
#![allow(unused)]

#[cfg(kani)]
mod harnesses {
    use time::{Date, Duration, Month, Time};

    const NS: i128 = 1_000_000_000;

    fn any_duration() -> Duration {
        let s: i64 = kani::any();
        let n: i32 = kani::any();
        kani::assume(n > -1_000_000_000 && n < 1_000_000_000);
        // time::Duration keeps seconds and nanoseconds of the same sign
        kani::assume(!(s > 0 && n < 0) && !(s < 0 && n > 0));
        Duration::new(s, n)
    }

    /// Duration::new(seconds >= 0, 0 <= ns < 10^9): nanos == seconds*10^9 + ns
    #[kani::proof]
    fn duration_new_nonneg() {
        let s: i64 = kani::any();
        let n: i32 = kani::any();
        kani::assume(s >= 0 && n >= 0 && n < 1_000_000_000);
        let d = Duration::new(s, n);
        assert!(d.whole_seconds() == s && d.subsec_nanoseconds() == n);
    }

    /// checked_add on NON-NEGATIVE durations (the only use in DurationLiteral::plus):
    /// Some(d) <=> the normalised sum fits, and then d is the exact sum. Stated on (seconds, nanoseconds)
    /// without 128-bit multiplication.
    #[kani::proof]
    fn duration_checked_add_nonneg() {
        let (s1, s2): (i64, i64) = (kani::any(), kani::any());
        let (n1, n2): (i32, i32) = (kani::any(), kani::any());
        kani::assume(s1 >= 0 && s2 >= 0 && n1 >= 0 && n1 < 1_000_000_000 && n2 >= 0 && n2 < 1_000_000_000);
        let a = Duration::new(s1, n1);
        let b = Duration::new(s2, n2);
        let carry: i128 = if n1 + n2 >= 1_000_000_000 { 1 } else { 0 };
        let secs: i128 = s1 as i128 + s2 as i128 + carry;
        let nanos: i32 = n1 + n2 - if carry == 1 { 1_000_000_000 } else { 0 };
        match a.checked_add(b) {
            Some(d) => assert!(secs <= i64::MAX as i128 && d.whole_seconds() as i128 == secs && d.subsec_nanoseconds() == nanos),
            None => assert!(secs > i64::MAX as i128),
        }
    }

    // `Duration * i32`: NOT validated. With a symbolic multiplier a full-domain and even a seconds < 2^20 harness did
    // not terminate in 900 s (64-bit division by 10^9 inside the operator). With the only multiplier the parser uses
    // (the constant -1, interval sign in parser.rs) a harness asserting that `d * -1i32` has seconds == -s and
    // nanoseconds == -n for every d with s != i64::MIN gave NO VERDICT either: CaDiCaL was stopped by a 600 s limit,
    // kissat after about 450 s (2026-10-04). Neither a success nor a counterexample was obtained, so the harness is
    // not registered (a timeout would make the thorough tier undecided) and the Mul contract of the stand-in stays an
    // unvalidated assumption, reported as such in every evidence file.

    /// Time::from_hms_nano is Ok exactly for in-range fields and keeps them
    #[kani::proof]
    fn time_from_hms_nano() {
        let (h, m, s): (u8, u8, u8) = (kani::any(), kani::any(), kani::any());
        let n: u32 = kani::any();
        match Time::from_hms_nano(h, m, s, n) {
            Ok(t) => assert!(h < 24 && m < 60 && s < 60 && n < 1_000_000_000
                && t.hour() == h && t.minute() == m && t.second() == s && t.nanosecond() == n),
            Err(_) => assert!(!(h < 24 && m < 60 && s < 60 && n < 1_000_000_000)),
        }
    }

    /// Month::try_from(u8) is Ok exactly for 1..=12 and keeps the number
    #[kani::proof]
    fn month_try_from() {
        let v: u8 = kani::any();
        match Month::try_from(v) {
            Ok(m) => assert!(v >= 1 && v <= 12 && u8::from(m) == v),
            Err(_) => assert!(!(v >= 1 && v <= 12)),
        }
    }

    fn is_leap(y: i32) -> bool { y % 4 == 0 && (y % 100 != 0 || y % 400 == 0) }
    fn days_in_month(y: i32, m: u8) -> u8 {
        if m == 2 { if is_leap(y) { 29 } else { 28 } } else if m == 4 || m == 6 || m == 9 || m == 11 { 30 } else { 31 }
    }

    /// Date::from_calendar_date is Ok exactly for valid proleptic Gregorian dates in -9999..=9999 and keeps the fields
    #[kani::proof]
    fn date_from_calendar_date() {
        let y: i32 = kani::any();
        let mv: u8 = kani::any();
        let d: u8 = kani::any();
        kani::assume(mv >= 1 && mv <= 12);
        let m = Month::try_from(mv).unwrap();
        let valid = y >= -9999 && y <= 9999 && d >= 1 && d <= days_in_month(y, mv);
        match Date::from_calendar_date(y, m, d) {
            Ok(t) => assert!(valid && t.year() == y && u8::from(t.month()) == mv && t.day() == d),
            Err(_) => assert!(!valid),
        }
    }

    /// i128::try_from(u128)
    #[kani::proof]
    fn i128_try_from_u128() {
        let v: u128 = kani::any();
        match i128::try_from(v) {
            Ok(x) => assert!(v <= i128::MAX as u128 && x as u128 == v),
            Err(_) => assert!(v > i128::MAX as u128),
        }
    }
}
