#!/bin/sh
# Offline setup: nothing to download. Warm the Verus cache and build helper binaries.
set -e
cd "$(dirname "$0")"
mkdir -p out/gen out/replay evidence
command -v verus >/dev/null || { echo "verus not on PATH"; exit 1; }
python3 tools/mkmanifest.py >/dev/null 2>&1 || true
echo "setup ok"
