// Generated file: first-party items below are copied verbatim from /repo by tools/gen.py.
#![allow(unused)]
#![allow(non_snake_case)]
#![allow(non_camel_case_types)]
use vstd::prelude::*;
use std::ops::{Add, Mul};


use std::hash::{Hash, Hasher};

// The text produced by `format!` and the `log` output are irrelevant to every property decided here: the macros are
// shadowed so that verbatim bodies containing them are accepted. Their ARGUMENT expressions are still evaluated (so an
// overflow, an index or an `unwrap` inside an argument is an obligation like anywhere else); only the formatting itself
// (the `Display`/`Debug` implementations of the arguments) is ASSUMED not to panic.
macro_rules! format { ($fmt:expr $(, $arg:expr)* $(,)?) => { { $( let _ = &$arg; )* verif_opaque_string() } } }
macro_rules! println { ($fmt:expr $(, $arg:expr)* $(,)?) => { { $( let _ = &$arg; )* } } }
macro_rules! print { ($fmt:expr $(, $arg:expr)* $(,)?) => { { $( let _ = &$arg; )* } } }
macro_rules! trace { ($fmt:expr $(, $arg:expr)* $(,)?) => { { $( let _ = &$arg; )* } } }
macro_rules! debug { ($fmt:expr $(, $arg:expr)* $(,)?) => { { $( let _ = &$arg; )* } } }
macro_rules! info { ($fmt:expr $(, $arg:expr)* $(,)?) => { { $( let _ = &$arg; )* } } }
macro_rules! warn { ($fmt:expr $(, $arg:expr)* $(,)?) => { { $( let _ = &$arg; )* } } }
macro_rules! error { ($fmt:expr $(, $arg:expr)* $(,)?) => { { $( let _ = &$arg; )* } } }

verus! {

#[verifier::external_body]
pub fn verif_opaque_string() -> String { unimplemented!() }

