// Generated file: first-party items below are copied verbatim from /repo by tools/gen.py.
#![allow(unused)]
#![allow(non_snake_case)]
#![allow(non_camel_case_types)]
use vstd::prelude::*;
use std::ops::{Add, Mul};


use std::hash::{Hash, Hasher};

// `format!` content and `log` output are irrelevant to every property decided here:
// the macros are shadowed so that verbatim bodies containing them are accepted.
macro_rules! format { ($($t:tt)*) => { verif_opaque_string() } }
macro_rules! println { ($($t:tt)*) => { () } }
macro_rules! print { ($($t:tt)*) => { () } }
macro_rules! trace { ($($t:tt)*) => { () } }
macro_rules! debug { ($($t:tt)*) => { () } }
macro_rules! info { ($($t:tt)*) => { () } }
macro_rules! warn { ($($t:tt)*) => { () } }
macro_rules! error { ($($t:tt)*) => { () } }

verus! {

#[verifier::external_body]
pub fn verif_opaque_string() -> String { unimplemented!() }

