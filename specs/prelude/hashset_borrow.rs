// ---- stand-in for std::collections::HashSet with Borrow-style lookups. ASSUMED contract: a set of the key
// abstraction `vkey` under which the element type's Eq/Hash agree (for Id and &Id: the lower-cased spelling)
#[verifier::external_body]
#[verifier::reject_recursive_types(K)]
pub struct HashSet<K> { _k: std::marker::PhantomData<K> }
impl<K: VKey> HashSet<K> {
    pub uninterp spec fn view(&self) -> Set<K::K>;
    /// the element stored for an abstract key (e.g. which `&Id` was inserted first under that name)
    pub uninterp spec fn stored(&self, k: K::K) -> K;
    #[verifier::external_body]
    pub fn new() -> (r: Self) ensures r@ == Set::<K::K>::empty() { unimplemented!() }
    #[verifier::external_body]
    pub fn insert(&mut self, k: K) -> (r: bool)
        ensures final(self)@ == old(self)@.insert(k.vkey()), r == !old(self)@.contains(k.vkey()),
            !old(self)@.contains(k.vkey()) ==> final(self).stored(k.vkey()) == k,
            forall|o: K::K| o != k.vkey() || old(self)@.contains(o) ==> #[trigger] final(self).stored(o) == old(self).stored(o),
    { unimplemented!() }
    #[verifier::external_body]
    pub fn contains<Q: VKey<K = K::K>>(&self, k: &Q) -> (r: bool) ensures r == self@.contains(k.vkey()) { unimplemented!() }
    #[verifier::external_body]
    pub fn get<Q: VKey<K = K::K>>(&self, k: &Q) -> (r: Option<&K>)
        ensures match r { Some(x) => self@.contains(k.vkey()) && *x == self.stored(k.vkey()) && x.vkey() == k.vkey(), None => !self@.contains(k.vkey()) }
    { unimplemented!() }
}
