// ---- stand-in for std::collections::HashSet keyed by the abstraction `vkey` (see hashmap_generic.rs)
#[verifier::external_body]
#[verifier::reject_recursive_types(K)]
pub struct HashSet<K> { _k: std::marker::PhantomData<K> }
impl<K: VKey> HashSet<K> {
    pub uninterp spec fn view(&self) -> Set<K::K>;
    #[verifier::external_body]
    pub fn new() -> (r: Self) ensures r@ == Set::<K::K>::empty() { unimplemented!() }
    #[verifier::external_body]
    pub fn insert(&mut self, k: K) -> (r: bool) ensures final(self)@ == old(self)@.insert(k.vkey()), r == !old(self)@.contains(k.vkey()) { unimplemented!() }
    #[verifier::external_body]
    pub fn contains(&self, k: &K) -> (r: bool) ensures r == self@.contains(k.vkey()) { unimplemented!() }
    #[verifier::external_body]
    pub fn get(&self, k: &K) -> (r: Option<&K>) ensures match r { Some(x) => self@.contains(k.vkey()) && x.vkey() == k.vkey(), None => !self@.contains(k.vkey()) } { unimplemented!() }
}
