
} // verus!
fn main() {}
