// ---- stand-in for std::collections::HashMap. ASSUMED contract: a map keyed by the abstraction `vkey` under which
// the key type's Eq and Hash are consistent (for Id: the lower-cased spelling; proved in unit case_insensitive).
pub trait VKey {
    type K;
    spec fn vkey(&self) -> Self::K;
}
impl VKey for Id {
    type K = Seq<char>;
    open spec fn vkey(&self) -> Seq<char> { self.lower_case@ }
}
//@include prelude/hashmap_generic.rs
