// ---- std conversions vstd has no specification for. ASSUMED (validated by Kani harness std_conv in the thorough tier).
pub assume_specification [<i128 as TryFrom<u128>>::try_from] (v: u128) -> (r: Result<i128, <i128 as TryFrom<u128>>::Error>)
    ensures match r { Ok(x) => x as int == v as int, Err(_) => v > 0x7fff_ffff_ffff_ffff_ffff_ffff_ffff_ffff };
