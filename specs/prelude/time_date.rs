// ---- stand-ins for time::{Time, Date, Month, PrimitiveDateTime} (time 0.3.36). ASSUMED contracts.
#[verifier::external_body]
pub struct Time { _p: u8 }
#[verifier::external_body]
pub struct Date { _p: u8 }
#[verifier::external_body]
pub struct PrimitiveDateTime { _p: u8 }
#[verifier::external_body]
pub struct ComponentRange { _p: u8 }
#[verifier::external_body]
pub struct Month { _p: u8 }

impl Time {
    pub uninterp spec fn hour(&self) -> int;
    pub uninterp spec fn minute(&self) -> int;
    pub uninterp spec fn second(&self) -> int;
    pub uninterp spec fn nanosecond(&self) -> int;
    #[verifier::external_body]
    pub fn from_hms(hour: u8, minute: u8, second: u8) -> (r: Result<Time, ComponentRange>)
        ensures match r {
            Ok(t) => hour < 24 && minute < 60 && second < 60 && t.hour() == hour && t.minute() == minute && t.second() == second && t.nanosecond() == 0,
            Err(_) => !(hour < 24 && minute < 60 && second < 60),
        }
    { unimplemented!() }
    #[verifier::external_body]
    pub fn from_hms_nano(hour: u8, minute: u8, second: u8, nanosecond: u32) -> (r: Result<Time, ComponentRange>)
        ensures match r {
            Ok(t) => hour < 24 && minute < 60 && second < 60 && nanosecond < 1_000_000_000
                     && t.hour() == hour && t.minute() == minute && t.second() == second && t.nanosecond() == nanosecond,
            Err(_) => !(hour < 24 && minute < 60 && second < 60 && nanosecond < 1_000_000_000),
        }
    { unimplemented!() }
}
impl Month {
    pub uninterp spec fn num(&self) -> int;
}
impl vstd::std_specs::convert::TryFromSpecImpl<u8> for Month {
    open spec fn obeys_try_from_spec() -> bool { false }
    open spec fn try_from_spec(v: u8) -> Result<Self, ComponentRange> { arbitrary() }
}
impl TryFrom<u8> for Month {
    type Error = ComponentRange;
    #[verifier::external_body]
    fn try_from(value: u8) -> (r: Result<Month, ComponentRange>)
        ensures match r { Ok(m) => 1 <= value <= 12 && m.num() == value, Err(_) => !(1 <= value <= 12) }
    { unimplemented!() }
}
pub open spec fn is_leap(y: int) -> bool { y % 4 == 0 && (y % 100 != 0 || y % 400 == 0) }
pub open spec fn days_in_month(y: int, m: int) -> int {
    if m == 2 { if is_leap(y) { 29 } else { 28 } }
    else if m == 4 || m == 6 || m == 9 || m == 11 { 30 } else { 31 }
}
/// proleptic Gregorian calendar date in the range time::Date supports without the large-dates feature
pub open spec fn valid_date(y: int, m: int, d: int) -> bool {
    -9999 <= y <= 9999 && 1 <= m <= 12 && 1 <= d <= days_in_month(y, m)
}
impl Date {
    pub uninterp spec fn year(&self) -> int;
    pub uninterp spec fn month(&self) -> int;
    pub uninterp spec fn day(&self) -> int;
    #[verifier::external_body]
    pub fn from_calendar_date(year: i32, month: Month, day: u8) -> (r: Result<Date, ComponentRange>)
        ensures match r {
            Ok(t) => valid_date(year as int, month.num(), day as int) && t.year() == year && t.month() == month.num() && t.day() == day,
            Err(_) => !valid_date(year as int, month.num(), day as int),
        }
    { unimplemented!() }
}
impl PrimitiveDateTime {
    pub uninterp spec fn date(&self) -> Date;
    pub uninterp spec fn time(&self) -> Time;
    #[verifier::external_body]
    pub fn new(date: Date, time: Time) -> (r: PrimitiveDateTime)
        ensures r.date() == date, r.time() == time
    { unimplemented!() }
}
