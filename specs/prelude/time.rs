//@subst "Second::per(Day)" "86_400u32"
//@subst "Second::per(Hour)" "3_600u16"
//@subst "Second::per(Minute)" "60u8"
// ---- stand-in for the `time` crate (time 0.3.36). ASSUMED contracts; each is validated
// against the real crate by a Kani harness (kani/src/time_api.rs) in the thorough tier.
#[verifier::external_body]
pub struct Duration { _p: u8 }

/// total number of nanoseconds representable by time::Duration (i64 seconds + |i32| < 10^9 nanoseconds, same sign)
pub open spec fn dur_ok(n: int) -> bool {
    -9223372036854775808int * 1000000000 - 999999999 <= n <= 9223372036854775807int * 1000000000 + 999999999
}

impl Duration {
    pub uninterp spec fn nanos(&self) -> int;
    pub uninterp spec fn mk(n: int) -> Duration;

    // real: panics only when normalising mixed signs overflows; contract restricted to the non-negative case
    #[verifier::external_body]
    pub fn new(seconds: i64, nanoseconds: i32) -> (r: Duration)
        requires seconds >= 0, 0 <= nanoseconds < 1_000_000_000,
        ensures r.nanos() == seconds as int * 1_000_000_000 + nanoseconds as int
    { unimplemented!() }

    // validated by Kani for non-negative operands only (kani/src/lib.rs duration_checked_add_nonneg), hence the precondition
    #[verifier::external_body]
    pub fn checked_add(self, rhs: Duration) -> (r: Option<Duration>)
        requires self.nanos() >= 0, rhs.nanos() >= 0,
        ensures match r {
            Some(d) => d.nanos() == self.nanos() + rhs.nanos() && dur_ok(d.nanos()),
            None => !dur_ok(self.nanos() + rhs.nanos()),
        }
    { unimplemented!() }

    #[verifier::external_body]
    pub fn days(d: i64) -> (r: Duration)
        requires -9223372036854775808int <= d as int * 86400 <= 9223372036854775807int,
        ensures r.nanos() == d as int * 86400 * 1_000_000_000
    { unimplemented!() }
    #[verifier::external_body]
    pub fn hours(d: i64) -> (r: Duration)
        requires -9223372036854775808int <= d as int * 3600 <= 9223372036854775807int,
        ensures r.nanos() == d as int * 3600 * 1_000_000_000
    { unimplemented!() }
    #[verifier::external_body]
    pub fn minutes(d: i64) -> (r: Duration)
        requires -9223372036854775808int <= d as int * 60 <= 9223372036854775807int,
        ensures r.nanos() == d as int * 60 * 1_000_000_000
    { unimplemented!() }
    #[verifier::external_body]
    pub fn seconds(s: i64) -> (r: Duration)
        ensures r.nanos() == s as int * 1_000_000_000
    { unimplemented!() }
    #[verifier::external_body]
    pub fn milliseconds(s: i64) -> (r: Duration)
        ensures r.nanos() == s as int * 1_000_000
    { unimplemented!() }
    #[verifier::external_body]
    pub fn microseconds(s: i64) -> (r: Duration)
        ensures r.nanos() == s as int * 1_000
    { unimplemented!() }
    #[verifier::external_body]
    pub fn nanoseconds(s: i64) -> (r: Duration)
        ensures r.nanos() == s as int
    { unimplemented!() }
}
pub broadcast axiom fn axiom_duration_mk(n: int)
    ensures #[trigger] Duration::mk(n).nanos() == n;

impl Clone for Duration {
    #[verifier::external_body]
    fn clone(&self) -> (r: Self) ensures r == *self { unimplemented!() }
}
impl Copy for Duration {}

// `a + b` on Duration panics on overflow; `d * k` likewise
impl vstd::std_specs::ops::AddSpecImpl<Duration> for Duration {
    open spec fn obeys_add_spec() -> bool { true }
    open spec fn add_req(self, rhs: Duration) -> bool { dur_ok(self.nanos() + rhs.nanos()) }
    open spec fn add_spec(self, rhs: Duration) -> Duration { Duration::mk(self.nanos() + rhs.nanos()) }
}
impl Add<Duration> for Duration {
    type Output = Duration;
    #[verifier::external_body]
    fn add(self, rhs: Duration) -> Duration { unimplemented!() }
}
pub open spec fn dur_scale(n: int, k: int) -> int {
    if k == -1 { -n } else if k == 1 { n } else if k == 0 { 0 } else { n * k }
}
impl vstd::std_specs::ops::MulSpecImpl<i32> for Duration {
    open spec fn obeys_mul_spec() -> bool { true }
    // (the case split keeps the common `* -1` linear for the solver)
    open spec fn mul_req(self, rhs: i32) -> bool { dur_ok(dur_scale(self.nanos(), rhs as int)) }
    open spec fn mul_spec(self, rhs: i32) -> Duration { Duration::mk(dur_scale(self.nanos(), rhs as int)) }
}
impl Mul<i32> for Duration {
    type Output = Duration;
    #[verifier::external_body]
    fn mul(self, rhs: i32) -> Duration { unimplemented!() }
}
