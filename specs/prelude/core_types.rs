//@types dsl/src/core.rs FileId SourceSpan
//@impl dsl/src/core.rs SourceSpan
//@method join
    ensures r.start == start.start, r.end == end.end, r.file_id == start.file_id,
//@method range
    ensures r.start == start, r.end == end, r.file_id == FileId::verif_default(),
//@method with_file_id
    ensures r.start == self.start, r.end == self.end, r.file_id == *file_id,
//@end
//@impl dsl/src/core.rs "Default for SourceSpan"
//@method default
    ensures r.start == 0, r.end == 0, r.file_id == FileId::verif_default(),
//@end
