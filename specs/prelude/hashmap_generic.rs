// ---- stand-in for std::collections::HashMap keyed by the abstraction `vkey` (see idmap.rs); lookups accept any
// borrowed form `Q` of the key with the same abstraction (std: `K: Borrow<Q>`)
#[verifier::external_body]
#[verifier::reject_recursive_types(K)]
#[verifier::reject_recursive_types(V)]
pub struct HashMap<K, V> { _k: std::marker::PhantomData<K>, _v: std::marker::PhantomData<V> }
impl<K: VKey, V> HashMap<K, V> {
    pub uninterp spec fn view(&self) -> Map<K::K, V>;
    #[verifier::external_body]
    pub fn new() -> (r: Self) ensures r@ == Map::<K::K, V>::empty(), r@.dom().finite() { unimplemented!() }
    #[verifier::external_body]
    pub fn get<Q: VKey<K = K::K>>(&self, k: &Q) -> (r: Option<&V>)
        ensures match r { Some(v) => self@.contains_key(k.vkey()) && *v == self@[k.vkey()], None => !self@.contains_key(k.vkey()) }
    { unimplemented!() }
    #[verifier::external_body]
    pub fn contains_key<Q: VKey<K = K::K>>(&self, k: &Q) -> (r: bool) ensures r == self@.contains_key(k.vkey()) { unimplemented!() }
    #[verifier::external_body]
    pub fn insert(&mut self, k: K, v: V) -> (r: Option<V>)
        ensures final(self)@ == old(self)@.insert(k.vkey(), v), old(self)@.dom().finite() ==> final(self)@.dom().finite(),
            match r { Some(p) => old(self)@.contains_key(k.vkey()) && p == old(self)@[k.vkey()], None => !old(self)@.contains_key(k.vkey()) }
    { unimplemented!() }
    #[verifier::external_body]
    pub fn get_key_value(&self, k: &K) -> (r: Option<(&K, &V)>)
        ensures match r { Some(kv) => self@.contains_key(k.vkey()) && *kv.1 == self@[k.vkey()] && kv.0.vkey() == k.vkey(), None => !self@.contains_key(k.vkey()) }
    { unimplemented!() }
    #[verifier::external_body]
    pub fn remove(&mut self, k: &K) -> (r: Option<V>)
        ensures final(self)@ == old(self)@.remove(k.vkey()),
            match r { Some(p) => old(self)@.contains_key(k.vkey()) && p == old(self)@[k.vkey()], None => !old(self)@.contains_key(k.vkey()) }
    { unimplemented!() }
    #[verifier::external_body]
    pub fn len(&self) -> (r: usize) { unimplemented!() }
    #[verifier::external_body]
    pub fn clear(&mut self) ensures final(self)@ == Map::<K::K, V>::empty(), final(self)@.dom().finite() { unimplemented!() }
}
