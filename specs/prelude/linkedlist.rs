// ---- stand-in for std::collections::LinkedList. ASSUMED contract: a sequence; front = index 0.
#[verifier::external_body]
#[verifier::reject_recursive_types(T)]
pub struct LinkedList<T> { _p: std::marker::PhantomData<T> }
impl<T> LinkedList<T> {
    pub uninterp spec fn view(&self) -> Seq<T>;
    #[verifier::external_body]
    pub fn new() -> (r: Self) ensures r@ == Seq::<T>::empty() { unimplemented!() }
    #[verifier::external_body]
    pub fn push_front(&mut self, t: T) ensures final(self)@ == seq![t] + old(self)@ { unimplemented!() }
    #[verifier::external_body]
    pub fn push_back(&mut self, t: T) ensures final(self)@ == old(self)@.push(t) { unimplemented!() }
    #[verifier::external_body]
    pub fn pop_front(&mut self) -> (r: Option<T>)
        ensures old(self)@.len() > 0 ==> final(self)@ == old(self)@.drop_first() && r == Some(old(self)@[0]),
                old(self)@.len() == 0 ==> r is None && final(self)@ == old(self)@
    { unimplemented!() }
    #[verifier::external_body]
    pub fn pop_back(&mut self) -> (r: Option<T>)
        ensures old(self)@.len() > 0 ==> final(self)@ == old(self)@.drop_last() && r == Some(old(self)@.last()),
                old(self)@.len() == 0 ==> r is None && final(self)@ == old(self)@
    { unimplemented!() }
    #[verifier::external_body]
    pub fn front_mut(&mut self) -> (r: Option<&mut T>)
        ensures old(self)@.len() == 0 ==> r is None && final(self)@ == old(self)@,
            old(self)@.len() > 0 ==> r is Some && *(r->Some_0) == old(self)@[0] && final(self)@ == old(self)@.update(0, *final(r->Some_0)),
    { unimplemented!() }
    #[verifier::external_body]
    pub fn back_mut(&mut self) -> (r: Option<&mut T>)
        ensures old(self)@.len() == 0 ==> r is None && final(self)@ == old(self)@,
            old(self)@.len() > 0 ==> r is Some && *(r->Some_0) == old(self)@.last() && final(self)@ == old(self)@.update(old(self)@.len() - 1, *final(r->Some_0)),
    { unimplemented!() }
}
