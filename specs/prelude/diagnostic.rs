//@problems
//@types dsl/src/diagnostic.rs Location Label Diagnostic
//@impl dsl/src/diagnostic.rs Label
//@method span
    ensures r.location.start == span.start, r.location.end == span.end, r.file_id == span.file_id,
//@end
//@impl dsl/src/diagnostic.rs Diagnostic
//@method problem trusted
    ensures r.primary == primary, r.code@ == problem.code_spec(), r.secondary@.len() == 0,
//@method with_secondary trusted
//@sigsub "mut self" "self"
    ensures r.primary == self.primary, r.code == self.code, r.secondary@ == self.secondary@.push(label),
//@end
