// ---- source text model shared by the position units: a sequence of characters; spans are byte offsets.
/// byte offset of the i-th character boundary of `s` (UTF-8). Uninterpreted; only monotonicity is assumed.
pub uninterp spec fn boff(s: Seq<char>, i: int) -> int;
pub broadcast axiom fn axiom_boff_mono(s: Seq<char>, i: int, j: int)
    requires 0 <= i <= j <= s.len(),
    ensures 0 <= #[trigger] boff(s, i) <= #[trigger] boff(s, j), (i < j ==> boff(s, i) < boff(s, j));
pub broadcast axiom fn axiom_boff_zero(s: Seq<char>)
    ensures #[trigger] boff(s, 0) == 0;
/// character index of the boundary at byte offset `off` (inverse of boff on boundaries)
pub uninterp spec fn cidx(s: Seq<char>, off: int) -> int;
pub broadcast axiom fn axiom_cidx(s: Seq<char>, i: int)
    requires 0 <= i <= s.len(),
    ensures cidx(s, #[trigger] boff(s, i)) == i;

/// number of line breaks ('\n') in s  ==  0-based line of the position just after s
pub open spec fn nl_count(s: Seq<char>) -> int
    decreases s.len()
{
    if s.len() == 0 { 0 } else { nl_count(s.drop_last()) + if s.last() == '\n' { 1int } else { 0int } }
}
/// number of characters after the last line break of s  ==  0-based column (in characters) just after s
pub open spec fn col_of(s: Seq<char>) -> int
    decreases s.len()
{
    if s.len() == 0 { 0 } else if s.last() == '\n' { 0 } else { col_of(s.drop_last()) + 1 }
}
pub proof fn lemma_counts_bounded(s: Seq<char>)
    ensures 0 <= nl_count(s) <= s.len(), 0 <= col_of(s) <= s.len()
    decreases s.len()
{
    if s.len() > 0 { lemma_counts_bounded(s.drop_last()); }
}
pub proof fn lemma_take_step(s: Seq<char>, n: int)
    requires 0 <= n < s.len()
    ensures s.take(n + 1).drop_last() == s.take(n), s.take(n + 1).last() == s[n]
{
    assert(s.take(n + 1).drop_last() =~= s.take(n));
}
