// ---- every struct/enum of the dsl crate, extracted (attributes and derives handled as described in DESIGN.md §2.1)
//@types dsl/src/core.rs Id
//@types dsl/src/common.rs
//@types dsl/src/textual.rs
//@types dsl/src/sfc.rs
//@types dsl/src/configuration.rs
//@types dsl/src/time.rs
