// ---- assumed specifications of std string functions (uninterpreted case mappings)
pub uninterp spec fn lower(s: Seq<char>) -> Seq<char>;
pub uninterp spec fn ascii_lower(s: Seq<char>) -> Seq<char>;
pub assume_specification [str::to_lowercase] (_0: &str) -> (r: String)
    ensures r@ == lower(_0@);
pub assume_specification [str::eq_ignore_ascii_case] (_0: &str, _1: &str) -> (r: bool)
    ensures r == (ascii_lower(_0@) == ascii_lower(_1@));
pub assume_specification<'a> [<String as From<&'a str>>::from] (_0: &str) -> (r: String)
    ensures r@ == _0@;
