#!/usr/bin/env python3
"""Generates specs/witness/c09_literals.json: the structured literal space of property C09 with an INDEPENDENT oracle.

Each witness is a small program whose literals are re-rendered by `ironplcc echo`; the expected rendering is computed here
from the mathematical value of the literal (Python integers, fractions and the calendar), which is what C09 states - not
from what the binary answered. Literals whose value cannot be represented must be rejected. Development aid: run after
the lists below change; an expectation that does not hold on the current tree is printed and NOT written (an existing
defect or an unsupported spelling; see DESIGN.md), never silently adapted.
"""
import calendar
import json
import os
import sys
from fractions import Fraction

HERE = os.path.dirname(os.path.abspath(__file__))
VERIF = os.path.dirname(HERE)
sys.path.insert(0, HERE)

UNITS = ["address_assignment", "config_actions", "fixed_point_parse", "integer_radix", "literal_actions", "literal_conv", "node_builders", "real_literal", "time_duration"]
FOR = "|".join(u + "/" for u in UNITS)


def prog(decls):
    return "PROGRAM p\nVAR\n" + "".join(" %s\n" % d for d in decls) + "END_VAR\nEND_PROGRAM\n"


def digits(n, base):
    if n == 0:
        return "0"
    s = ""
    while n:
        s = "0123456789ABCDEF"[n % base] + s
        n //= base
    return s


def underscored(s, every):
    # an underscore between digits, after every `every`-th digit counted from the right
    out = ""
    for i, ch in enumerate(reversed(s)):
        if i and i % every == 0:
            out = "_" + out
        out = ch + out
    return out


def main():
    import witness
    witness.build_ironplcc()
    cands = []

    def echo_ok(name, decls, expects):
        cands.append({"for": FOR, "property": ["C09"], "name": name, "kind": "echo", "files": {"l.st": prog(decls)}, "expect_contains": expects})

    def echo_reject(name, decl):
        cands.append({"for": FOR, "property": ["C09"], "name": name, "kind": "echo", "files": {"l.st": prog([decl])}, "expect": "reject"})

    # ---- integers: base x magnitude class, underscores at every position class
    mags = [0, 1, 127, 128, 255, 256, 32767, 32768, 65535, 65536, 2**31 - 1, 2**31, 2**32 - 1, 2**32, 2**63 - 1, 2**63, 2**64 - 1, 2**64, 2**127 - 1, 2**127, 2**128 - 1]
    for base in (2, 8, 10, 16):
        for every, tag in ((0, "plain"), (1, "an underscore between all digits"), (3, "an underscore after every third digit")):
            decls, exps = [], []
            for i, n in enumerate(mags):
                d = digits(n, base)
                if every:
                    d = underscored(d, every)
                lit = d if base == 10 else "%d#%s" % (base, d)
                decls.append("v%d : ULINT := %s;" % (i, lit))
                exps.append("v%d : ULINT := %d;" % (i, n))
            echo_ok("integers in base %d, every magnitude class up to 2^128-1 (%s)" % (base, tag), decls, exps)
        for n, t in ((2**128, "2^128"), (2**128 + 1, "2^128+1"), (2**130, "2^130")):
            d = digits(n, base)
            echo_reject("integer %s in base %d cannot be represented and is rejected" % (t, base), "v : ULINT := %s;" % (d if base == 10 else "%d#%s" % (base, d)))
    # signed and type-prefixed
    decls, exps = [], []
    for i, n in enumerate([1, 5, 128, 32768, 2**31, 2**63]):
        decls.append("s%d : LINT := -%d;" % (i, n))
        exps.append("s%d : LINT :=- %d;" % (i, n))
        decls.append("t%d : LINT := LINT#-%d;" % (i, n))
        exps.append("t%d : LINT :=- %d;" % (i, n))
        decls.append("u%d : LINT := +%d;" % (i, n))
        exps.append("u%d : LINT := %d;" % (i, n))
    echo_ok("signed and type-prefixed integers keep sign and magnitude", decls, exps)
    decls, exps = [], []
    for i, (ty, lit, n) in enumerate([("BYTE", "BYTE#16#FF", 255), ("WORD", "WORD#16#FFFF", 65535), ("DWORD", "DWORD#16#FFFF_FFFF", 2**32 - 1), ("LWORD", "LWORD#16#FFFF_FFFF_FFFF_FFFF", 2**64 - 1),
                                      ("WORD", "WORD#2#1010", 10), ("WORD", "WORD#8#777", 511), ("WORD", "WORD#1234", 1234)]):
        decls.append("b%d : %s := %s;" % (i, ty, lit))
        exps.append("b%d : %s := %s#%d;" % (i, ty, ty, n))
    echo_ok("bit string literals in every base keep their value", decls, exps)

    # ---- type-prefixed reals keep the value that was written (the nearest LREAL, whatever the prefix), both signs
    from decimal import Decimal

    def show(x):
        t = format(Decimal(repr(x)), "f")
        return t.rstrip("0").rstrip(".") if "." in t else t
    decls, exps = [], []
    for i, lit in enumerate(["0.1", "16777217.0", "2.5E-3", "1.1", "3.3E-7", "123456.789", "1.0E-40", "9.87654321"]):
        for ty in ("REAL", "LREAL"):
            for sign in ("", "-", "+"):
                name = "r%d%s%s" % (i, ty[0].lower(), {"": "", "-": "n", "+": "p"}[sign])
                decls.append("%s : %s := %s#%s%s;" % (name, ty, ty if i % 2 else ty.lower(), sign, lit))
                v = float(lit)
                exps.append("%s : %s := %s#%s%s;" % (name, ty, ty, "-" if sign == "-" else "", show(v)))
    echo_ok("type-prefixed real literals keep the written value (the prefix does not change it), both signs", decls, exps)

    # ---- durations: every unit with whole and fractional values (results that are whole milliseconds), both signs
    unit_ms = {"d": 86400000, "h": 3600000, "m": 60000, "s": 1000, "ms": 1}
    vals = ["0", "1", "1.5", "0.25", "12.125", "2.0", "100", "0.001", "1_0", "1_000.5"]
    for u, f in unit_ms.items():
        decls, exps = [], []
        for i, v in enumerate(vals):
            x = Fraction(v.replace("_", "")) * f
            if x.denominator != 1:
                continue
            for sign, pre in (("", "T#"), ("-", "TIME#")):
                name = "d%d%s" % (i, "n" if sign else "")
                decls.append("%s : TIME := %s%s%s%s;" % (name, pre, sign, v, u))
                exps.append("%s : TIME := TIME#%s%dms;" % (name, "-" if sign and x != 0 else "", x))
        echo_ok("durations in unit %s: whole and fractional values are the exact product" % u, decls, exps)
    for lit, t in (("T#1e3s", "exponent"), ("T#1.5.5s", "two points"), ("T#99999999999999999999d", "out of range"), ("T#9223372036854775808s", "2^63 seconds")):
        echo_reject("duration %s (%s) is rejected" % (lit, t), "x : TIME := %s;" % lit)

    # ---- dates: every field at min, max, max+1
    decls, exps, k = [], [], 0
    for y in (2023, 2024, 1970, 2100):
        for mth in (0, 1, 2, 4, 12, 13):
            for day in (0, 1, 28, 29, 30, 31, 32):
                valid = 1 <= mth <= 12 and 1 <= day <= calendar.monthrange(y, mth)[1]
                lit = "D#%04d-%02d-%02d" % (y, mth, day)
                if valid:
                    decls.append("c%d : DATE := %s;" % (k, lit))
                    exps.append("c%d : DATE := DATE#%04d-%02d-%02d;" % (k, y, mth, day))
                    k += 1
                elif y in (2023, 2024):
                    echo_reject("%s is not a date and is rejected" % lit, "x : DATE := %s;" % lit)
    echo_ok("every valid date (month ends, leap days) is kept field by field", decls, exps)

    # ---- time of day and date-and-time
    decls, exps, k = [], [], 0
    for h in (0, 12, 23, 24):
        for mi in (0, 59, 60):
            for s in (0, 59, 60):
                lit = "TOD#%02d:%02d:%02d" % (h, mi, s)
                if h <= 23 and mi <= 59 and s <= 59:
                    decls.append("t%d : TOD := %s;" % (k, lit))
                    exps.append("t%d : TIME_OF_DAY := TIME_OF_DAY#%02d:%02d:%02d.00;" % (k, h, mi, s))
                    k += 1
                elif (h, mi, s).count(0) >= 1:
                    echo_reject("%s is not a time of day and is rejected" % lit, "x : TOD := %s;" % lit)
    for frac, micro in (("5", 500000), ("25", 250000), ("000001", 1), ("999999", 999999)):
        decls.append("t%d : TOD := TIME_OF_DAY#01:02:03.%s;" % (k, frac))
        exps.append("t%d : TIME_OF_DAY := TIME_OF_DAY#01:02:03.%02d;" % (k, micro))  # the renderer prints the microseconds with at least two digits
        k += 1
    echo_ok("every valid time of day is kept field by field, fractions included", decls, exps)
    decls, exps = [], []
    for k, (y, mth, day, h, mi, s) in enumerate([(2024, 2, 29, 23, 59, 59), (2023, 12, 31, 0, 0, 0), (1970, 1, 1, 12, 30, 15)]):
        decls.append("g%d : DT := DT#%04d-%02d-%02d-%02d:%02d:%02d;" % (k, y, mth, day, h, mi, s))
        exps.append("g%d : DATE_AND_TIME := DATE_AND_TIME#%04d-%02d-%02d-%02d:%02d:%02d.00;" % (k, y, mth, day, h, mi, s))
    echo_ok("date-and-time literals are kept field by field", decls, exps)
    for lit in ("DT#2023-02-29-00:00:00", "DT#2024-01-01-24:00:00", "DT#2024-13-01-00:00:00", "DT#2024-01-01-00:60:00"):
        echo_reject("%s is rejected" % lit, "x : DT := %s;" % lit)

    # ---- direct addresses: prefix x size x 1-3 multi-digit components
    ty = {"": "BOOL", "X": "BOOL", "B": "BYTE", "W": "WORD", "D": "DWORD", "L": "LWORD"}
    for loc in "IQM":
        decls, exps, k = [], [], 0
        for size, t in ty.items():
            for comps in ("7", "10", "10.21", "1.2.3", "123.45.6789", "0", "4294967295"):
                a = "%%%s%s%s" % (loc, size, comps)
                decls.append("a%d AT %s : %s;" % (k, a, t))
                exps.append("a%d AT %s : %s" % (k, a, t))
                k += 1
        echo_ok("direct addresses %%%s: every size with one to three multi-digit components" % loc, decls, exps)
    echo_reject("direct address component 2^32 is rejected", "a AT %IX4294967296 : BOOL;")

    out, bad = [], []
    for c in cands:
        rep, obs = witness.run_candidate(c)
        (bad if rep else out).append((c, obs))
    json.dump([c for c, _ in out], open(os.path.join(VERIF, "specs", "witness", "c09_literals.json"), "w"), indent=1)
    print("wrote %d witnesses; %d expectations do not hold on the current tree:" % (len(out), len(bad)))
    for c, obs in bad:
        print("   NOT HELD:", c["name"], "::", "; ".join(obs.get("mismatches", []))[:300])
    return 0


if __name__ == "__main__":
    sys.exit(main())
