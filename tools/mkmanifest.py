#!/usr/bin/env python3
"""Writes MANIFEST.json from specs/manifest_src.json (kept separate so the text is reviewable)."""
import json, os
HERE = os.path.dirname(os.path.abspath(__file__))
V = os.path.dirname(HERE)
src = json.load(open(os.path.join(V, "specs", "manifest_src.json")))
checks = []
for c in src["checks"]:
    pid = c["property_id"]
    checks.append({
        "property_id": pid,
        "quick_cmd": "./check %s --tier quick" % pid,
        "thorough_cmd": "./check %s --tier thorough" % pid,
        "evidence_file": "/verif/evidence/%s.json" % pid,
        "replay_cmd_template": "./check %s --replay {path}" % pid,
        "engine": "verus-contracts",
        "level_claimed": {"category": c["category"], "text": c["text"], "design_ref": c["design_ref"]},
        "level_note": c["note"],
        "technique": c["technique"],
    })
man = {
    "version": 1,
    "setup_cmd": src["setup_cmd"],
    "hooks": src["hooks"],
    "engines": src["engines"],
    "checks": checks,
    "notes": src["notes"],
    "not_applicable": src["not_applicable"],
}
json.dump(man, open(os.path.join(V, "MANIFEST.json"), "w"), indent=1)
print("MANIFEST.json written: %d checks, %d not applicable" % (len(checks), len(man["not_applicable"])))
