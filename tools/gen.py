#!/usr/bin/env python3
"""Unit generator: expands a unit template (specs/units/<unit>.vrs) into one
Verus file, copying the named items byte-for-byte from /repo's *current*
working tree and splicing the contracts of the template around them.

Directive reference (a directive line starts with `//@`):

  //@unit <name>                      unit name (default: file stem)
  //@property C09 C04                 default properties served by following items
  //@include <path relative to specs/>
  //@types <file> [Name ...]          struct/enum definitions (all if no names)
  //@const <file> <NAME>              a `const` item, verbatim
  //@fn <file> <name> [key=val ...]   a free function
  //@impl <file> "<header>" [as="<header>"] [nth=N]
  //@method <name> [key=val ...]      (inside //@impl)
  //@peg <file> <rule> <alt#> name=<fn> params="a: T, b: U" [ret="T"]
  //@loop <n> [iter=<ghost>]          following raw lines go into the n-th loop header
  //@replace / //@with / //@endreplace   havoc / rewrite of an exact text (reported)
  //@end                              ends fn / impl / peg

  keys: ret=<name of result>  props=C01,C02  trusted (extract as external_body: body dropped)
        noret (do not name the result)  vis=keep

Raw lines after //@fn, //@method, //@peg (up to the next directive) are the
contract (requires/ensures/decreases) and are inserted between signature and
body. Everything not in a directive block is copied to the output verbatim.
"""
import hashlib
import json
import os
import re
import shlex
import sys

sys.path.insert(0, os.path.dirname(os.path.abspath(__file__)))
from rustsrc import Src, AnchorLost, mask, norm_ws  # noqa: E402

REPO = os.environ.get("VERIF_REPO", "/repo")
CROOT = os.path.join(REPO, "compiler")
SPECS = os.path.join(os.path.dirname(os.path.dirname(os.path.abspath(__file__))), "specs")

_src_cache = {}


def src(rel):
    p = os.path.join(CROOT, rel)
    if p not in _src_cache:
        if not os.path.exists(p):
            raise AnchorLost("file %s not found" % rel)
        _src_cache[p] = Src(p)
    return _src_cache[p]


def sha(s):
    return hashlib.sha256(s.encode("utf-8")).hexdigest()[:16]


# --------------------------------------------------------------------------
# attribute / doc stripping and visibility rewriting
# --------------------------------------------------------------------------

def strip_attrs(text):
    """Remove #[...] attributes and /// doc comment lines from item text.
    Returns (text, derives:list[str])"""
    m = mask(text)
    out = []
    i = 0
    derives = []
    n = len(text)
    while i < n:
        if m[i] == "#" and i + 1 < n and m[i + 1] in "[!":
            j = m.find("[", i)
            depth = 0
            k = j
            while k < n:
                if m[k] == "[":
                    depth += 1
                elif m[k] == "]":
                    depth -= 1
                    if depth == 0:
                        break
                k += 1
            attr = text[i:k + 1]
            dm = re.match(r"#\[\s*derive\s*\((.*)\)\s*\]$", attr, re.S)
            if dm:
                derives += [d.strip() for d in dm.group(1).split(",") if d.strip()]
            i = k + 1
            # swallow trailing newline if the line is now blank
            ls = len(out)
            while ls > 0 and out[ls - 1] in " \t":
                ls -= 1
            if (ls == 0 or out[ls - 1] == "\n") and i < n and text[i] == "\n":
                del out[ls:]
                i += 1
            continue
        out.append(text[i])
        i += 1
    res = "".join(out)
    res = re.sub(r"^[ \t]*///.*\n", "", res, flags=re.M)
    res = re.sub(r"^[ \t]*//!.*\n", "", res, flags=re.M)
    return res, derives


def publicize_fields(text, kind):
    """Add `pub` to every field of a struct definition (text without attrs)."""
    m = mask(text)
    if kind != "struct":
        return text
    # tuple struct
    br = m.find("{")
    pr = m.find("(")
    semi = m.find(";")
    if pr >= 0 and (br < 0 or pr < br):
        # tuple struct: add pub to each depth-1 element
        s = Src("<mem>", text)
        close = s.match_close(pr)
        inner = text[pr + 1:close]
        parts = split_depth0(inner, ",")
        parts = [p if (not p.strip() or p.strip().startswith("pub")) else (re.match(r"\s*", p).group(0) + "pub " + p.lstrip()) for p in parts]
        return text[:pr + 1] + ",".join(parts) + text[close:]
    if br < 0:
        return text
    s = Src("<mem>", text)
    close = s.match_close(br)
    body = text[br + 1:close]
    mb = m[br + 1:close]
    # walk lines at depth 0 within body
    res = []
    depth = 0
    pos = 0
    for line, mline in zip(body.split("\n"), mb.split("\n")):
        if depth == 0:
            fm = re.match(r"^(\s*)(pub(\([a-z]+\))?\s+)?([A-Za-z_]\w*)\s*:", mline)
            if fm:
                if fm.group(2):
                    line = fm.group(1) + "pub " + line[fm.end(2):]
                else:
                    line = fm.group(1) + "pub " + line[len(fm.group(1)):]
        depth += mline.count("{") + mline.count("(") + mline.count("[") + mline.count("<") - mline.count("}") - mline.count(")") - mline.count("]") - mline.count(">")
        # '->' contains '>' : compensate
        depth += mline.count("->")
        res.append(line)
    return text[:br + 1] + "\n".join(res) + text[close:]


def split_depth0(s, sep):
    m = mask(s)
    parts = []
    depth = 0
    last = 0
    for i, ch in enumerate(m):
        if ch in "([{<":
            depth += 1
        elif ch in ")]}>":
            depth -= 1
        elif ch == sep and depth == 0:
            parts.append(s[last:i])
            last = i + 1
    parts.append(s[last:])
    return parts


def split_clauses(s):
    """Split contract text on commas at bracket depth 0, ignoring commas inside
    quantifier binders `forall|a: int, b: int|`. Angle brackets are not counted."""
    m = mask(s)
    parts = []
    depth = 0
    last = 0
    i = 0
    n = len(m)
    while i < n:
        ch = m[i]
        if ch in "([{":
            depth += 1
        elif ch in ")]}":
            depth -= 1
        elif ch == "|" and re.search(r"(forall|exists|choose)\s*$", m[:i]):
            j = m.find("|", i + 1)
            if j > 0:
                i = j
        elif ch == "," and depth == 0:
            parts.append(s[last:i])
            last = i + 1
        i += 1
    parts.append(s[last:])
    return parts


def is_fieldless_enum(text, kind):
    if kind != "enum":
        return False
    m = mask(text)
    br = m.find("{")
    inner = m[br + 1:m.rfind("}")]
    return "(" not in inner and "{" not in inner


KEEP_DERIVES_FIELDLESS = ["Clone", "Copy", "PartialEq", "Eq"]


def render_type(s, t, opts):
    raw = s.text[t["attr_start"]:t["end"]]
    body, derives = strip_attrs(raw)
    body = body.lstrip("\n")
    body = publicize_fields(body, t["kind"])
    body = re.sub(r"^(pub(\([a-z]+\))?\s+)?(struct|enum)\b", r"pub \3", body.lstrip(), count=1)
    name = t["name"]
    generics = ""
    out = []
    fieldless = is_fieldless_enum(body, t["kind"])
    notes = []
    if fieldless:
        keep = [d for d in derives if d in KEEP_DERIVES_FIELDLESS]
        manual_clone = "Clone" in keep and "Copy" not in keep
        if manual_clone:
            keep.remove("Clone")
        if "PartialEq" in keep:
            # derived PartialEq on a fieldless enum is structural equality: tell Verus so
            if "Eq" not in keep:
                keep.append("Eq")
            keep.append("Structural")
            notes.append("derive(PartialEq) on fieldless enum %s: Verus `Structural` added (exec == is structural equality)" % name)
        if keep:
            out.append("#[derive(%s)]" % ", ".join(keep))
        out.append(body)
        if manual_clone:
            out.append(
                "impl Clone for %s {\n    #[verifier::external_body]\n    fn clone(&self) -> (r: Self)\n        ensures r == *self\n    { unimplemented!() }\n}" % name)
            notes.append("derive(Clone) on %s replaced by external_body impl with assumed spec `clone() == *self`" % name)
    else:
        out.append(body)
        if "Clone" in derives and name not in opts.get("noclone", ()):
            out.append(
                "impl Clone for %s {\n    #[verifier::external_body]\n    fn clone(&self) -> (r: Self)\n        ensures r == *self\n    { unimplemented!() }\n}" % name)
            notes.append("derive(Clone) on %s replaced by external_body impl with assumed spec `clone() == *self`" % name)
    if "Default" in derives:
        out.append(
            "impl %s { pub uninterp spec fn verif_default() -> %s; }\nimpl Default for %s {\n    #[verifier::external_body]\n    fn default() -> (r: Self)\n        ensures r == %s::verif_default()\n    { unimplemented!() }\n}" % (name, name, name, name))
        notes.append("derive(Default) on %s replaced by external_body impl returning an uninterpreted constant" % name)
    dropped = [d for d in derives if d not in ("Clone", "Default") and not (fieldless and d in KEEP_DERIVES_FIELDLESS)]
    return "\n".join(out) + "\n", dropped, notes


# --------------------------------------------------------------------------
# function extraction + splicing
# --------------------------------------------------------------------------

class Item:
    def __init__(self, ident, kind, props, srcfile, src_lines, body_sha):
        self.ident = ident
        self.kind = kind
        self.props = props
        self.srcfile = srcfile
        self.src_lines = src_lines
        self.body_sha = body_sha
        self.gen_lines = None  # (start, end) 1-based inclusive in generated file
        self.contract_lines = None
        self.clauses = {"requires": [], "ensures": [], "invariant": [], "decreases": []}
        self.havoc = []
        self.rewrites = []
        self.scaffold = 0
        self.carrying = []
        self.trusted = False
        self.elsewhere = False
        self.name = ident.split("::")[-1].split("/")[-1]
        self.body_text = ""

    def to_json(self):
        return {
            "id": self.ident, "kind": self.kind, "props": self.props, "src": self.srcfile,
            "src_lines": self.src_lines, "body_sha": self.body_sha, "gen_lines": self.gen_lines,
            "contract_lines": self.contract_lines, "clauses": self.clauses, "havoc": self.havoc, "rewrites": self.rewrites, "scaffold": self.scaffold, "carrying": self.carrying, "name": self.name, "body_text": self.body_text,
            "trusted": self.trusted, "elsewhere": self.elsewhere,
        }


def count_clauses(contract_text):
    """Split a contract text into clause lists per keyword (depth-0 commas)."""
    res = {"requires": [], "ensures": [], "invariant": [], "decreases": []}
    # tokens: keyword at line start (after whitespace)
    cur = None
    buf = []

    def flush():
        nonlocal buf
        if cur and buf:
            txt = "\n".join(buf)
            for part in split_clauses(txt):
                p = part.strip()
                if p:
                    res[cur].append(norm_ws(p))
        buf = []

    for line in contract_text.split("\n"):
        st = line.strip()
        if st.startswith("//"):
            continue
        km = re.match(r"^(requires|ensures|invariant|decreases|invariant_except_break|recommends)\b(.*)$", st)
        if km:
            flush()
            cur = km.group(1) if km.group(1) in res else None
            if km.group(2).strip():
                buf.append(km.group(2))
        else:
            buf.append(line)
    flush()
    return res


def name_result(sig, ret):
    """Rewrite `-> T` at depth 0 of a signature into `-> (ret: T)`."""
    m = mask(sig)
    depth = 0
    i = 0
    arrow = -1
    while i < len(m) - 1:
        ch = m[i]
        if ch in "([{<":
            depth += 1
        elif ch in ")]}":
            depth -= 1
        elif ch == ">" and m[i - 1] != "-":
            depth -= 1
        if m[i] == "-" and m[i + 1] == ">" and depth == 0:
            arrow = i
        i += 1
    if arrow < 0:
        return sig
    # where clause?
    rest = sig[arrow + 2:]
    wm = re.search(r"\bwhere\b", mask(rest))
    ty = rest[:wm.start()] if wm else rest
    tail = rest[wm.start():] if wm else ""
    return sig[:arrow] + "-> (" + ret + ": " + ty.strip() + ")" + (" " + tail if tail else "")


def apply_replacements(body, repls, item):
    for old, new, note in repls:
        cnt = body.count(old)
        if cnt != 1:
            # try whitespace-insensitive match
            pat = re.compile(r"\s+".join(re.escape(tok) for tok in old.split()))
            ms = list(pat.finditer(body))
            if len(ms) != 1:
                # comments are not code: the same tokens with comments added, removed or reworded still are the anchor
                old_nc = re.sub(r"//[^\n]*", "", old)
                gap = r"(?:\s|//[^\n]*(?:\n|$))+"
                pat = re.compile(gap.join(re.escape(tok) for tok in old_nc.split()))
                ms = list(pat.finditer(body))
            if len(ms) != 1:
                raise AnchorLost("%s: replace anchor found %d times: %r" % (item.ident, len(ms), old[:60]))
            body = body[:ms[0].start()] + new + body[ms[0].end():]
        else:
            body = body.replace(old, new)
        if note.startswith("std-equivalent"):
            item.rewrites.append({"old": old, "new": new, "note": note})
        else:
            item.havoc.append({"old": old, "new": new, "note": note})
    return body


def desugar_option_map(body, recv, item):
    """`recv.map(|p| e)` -> `match recv { Some(p) => Some(e), None => None }` (the definition of Option::map).
    Verus knows nothing about the result of an un-annotated closure; the match form is what the closure call means."""
    is_result = recv.startswith("result:")
    if is_result:
        recv = recv[len("result:"):]
    m = mask(body)
    pat = re.compile(re.escape(recv) + r"\s*\.\s*map\s*\(\s*\|([^|]*)\|")
    ms = list(pat.finditer(m))
    if len(ms) != 1:
        raise AnchorLost("%s: `%s.map(|..| ..)` found %d times" % (item.ident, recv, len(ms)))
    mm = ms[0]
    par = m.find("(", mm.start() + len(recv))
    s2 = Src("<mem>", body)
    close = s2.match_close(par)
    param = body[mm.start(1):mm.end(1)].strip()
    expr = body[mm.end():close].strip()
    if is_result:
        new = "match %s { Ok(%s) => Ok(%s), Err(verif_e) => Err(verif_e) }" % (recv, param, expr)
    else:
        new = "match %s { Some(%s) => Some(%s), None => None }" % (recv, param, expr)
    item.rewrites.append({"old": body[mm.start():close + 1], "new": new, "note": "std-equivalent: Option::map(closure) desugared to its defining match"})
    return body[:mm.start()] + new + body[close + 1:]


def desugar_map_collect(body, recv, ty, inv, item):
    """`recv.into_iter().map(|p| e).collect()` -> explicit loop pushing `e` for every element, in order."""
    m = mask(body)
    pat = re.compile(re.escape(recv) + r"\s*\.(into_iter|iter)\(\)\s*\.map\s*\(\s*\|([^|]*)\|")
    ms = list(pat.finditer(m))
    if len(ms) != 1:
        raise AnchorLost("%s: `%s.into_iter().map(|..| ..)` found %d times" % (item.ident, recv, len(ms)))
    mm = ms[0]
    by_ref = mm.group(1) == "iter"
    par = m.find("(", m.find(".map", mm.start()))
    s2 = Src("<mem>", body)
    close = s2.match_close(par)
    tail = re.match(r"\s*\.collect\(\)", m[close + 1:])
    if not tail:
        raise AnchorLost("%s: map(..) is not followed by .collect()" % item.ident)
    param = body[mm.start(2):mm.end(2)].strip()
    expr = body[mm.end():close].strip()
    cl = count_clauses(inv)
    for k in cl:
        item.clauses[k] += cl[k]
    item.carrying += cl["invariant"]
    new = ("{ let mut verif_out: Vec<%s> = Vec::new(); for %s in verif_it: %s\n%s\n{ verif_out.push(%s); } verif_out }"
           % (ty, param, recv + (".iter()" if by_ref else ""), inv, expr))
    item.rewrites.append({"old": body[mm.start():close + 1 + tail.end()], "new": "explicit loop", "note": "std-equivalent: Vec into_iter()/iter().map(closure).collect() desugared to the loop it denotes"})
    return body[:mm.start()] + new + body[close + 1 + tail.end():]


def desugar_filter_partition(body, recv, inv, item):
    """`let (A, B): (Vec<_>, Vec<_>) = recv.chars().filter(|c| P).partition(|c| Q);` -> the loop it denotes:
    every character with P goes to A if Q, else to B, in order. The closure bodies P and Q are kept verbatim (their
    parameter `c: &char` is bound to a reference to the loop variable)."""
    m = mask(body)
    pat = re.compile(r"let\s*\(\s*(\w+)\s*,\s*(\w+)\s*\)\s*:\s*\(\s*Vec<_>\s*,\s*Vec<_>\s*\)\s*=\s*" + re.escape(recv) +
                     r"\s*\.chars\(\)\s*\.filter\(\s*\|(\w+)\|")
    ms = list(pat.finditer(m))
    if len(ms) != 1:
        raise AnchorLost("%s: `let (a, b): (Vec<_>, Vec<_>) = %s.chars().filter(|c| ..).partition(|c| ..)` found %d times" % (item.ident, recv, len(ms)))
    mm = ms[0]
    a_name, b_name, p1 = mm.group(1), mm.group(2), mm.group(3)
    s2 = Src("<mem>", body)
    par1 = m.rfind("(", 0, mm.end())          # the '(' of filter(
    close1 = s2.match_close(par1)
    pred1 = body[mm.end():close1].strip()
    tail = re.match(r"\s*\.partition\(\s*\|(\w+)\|", m[close1 + 1:])
    if not tail:
        raise AnchorLost("%s: filter(..) is not followed by .partition(|c| ..)" % item.ident)
    p2 = tail.group(1)
    par2 = close1 + 1 + m[close1 + 1:].index("(")
    close2 = s2.match_close(par2)
    pred2 = body[close1 + 1 + tail.end():close2].strip()
    semi = re.match(r"\s*;", m[close2 + 1:])
    if not semi:
        raise AnchorLost("%s: partition(..) is not followed by `;`" % item.ident)
    # optional proof text for the start of the loop body after a line `//@body`
    body_pre = ""
    if "//@body" in inv:
        inv, body_pre = inv.split("//@body", 1)
    cl = count_clauses(inv)
    for k in cl:
        item.clauses[k] += cl[k]
    item.carrying += cl["invariant"]
    new = ("let mut %s: Vec<char> = Vec::new(); let mut %s: Vec<char> = Vec::new();\n"
           "for verif_c in verif_it: %s.chars()\n%s\n{ %s\n let %s = &verif_c; if %s { let %s = &verif_c; if %s { %s.push(verif_c); } else { %s.push(verif_c); } } }"
           % (a_name, b_name, recv, inv.rstrip(), body_pre.strip(), p1, pred1, p2, pred2, a_name, b_name))
    item.rewrites.append({"old": body[mm.start():close2 + 1 + semi.end()], "new": "explicit loop",
                          "note": "std-equivalent: chars().filter(p).partition(q) desugared to the loop it denotes (closure bodies verbatim)"})
    return body[:mm.start()] + new + body[close2 + 1 + semi.end():]


def apply_befores(body, befores, item):
    """Insert proof scaffolding text before the unique occurrence of an anchor text."""
    for anchor, txt in befores:
        pat = re.compile(r"\s+".join(re.escape(tok) for tok in anchor.split()))
        ms = list(pat.finditer(body))
        if len(ms) != 1:
            raise AnchorLost("%s: proof anchor found %d times: %r" % (item.ident, len(ms), anchor[:60]))
        body = body[:ms[0].start()] + txt + "\n" + body[ms[0].start():]
        item.scaffold += txt.count("assert")
    return body


def tail_expr_start(s, body_open, body_close):
    """index where the tail expression of a block starts (after the last depth-1 `;` or `}`), or body_close"""
    k = body_open + 1
    last = body_open + 1
    while k < body_close:
        ch = s.m[k]
        if ch in "([{":
            c = s.match_close(k)
            k = c + 1
            if ch == "{":
                last = k
            continue
        if ch == ";":
            last = k + 1
        k += 1
    if s.m[last:body_close].strip() == "":
        return body_close
    # skip leading whitespace/newline
    while last < body_close and s.m[last] in " \t\n":
        last += 1
    return last


def splice_loops(s, body_open, body_close, loops_spec, item, places=None, frame=None):
    """Return the body text [body_open, body_close] with loop headers annotated and
    proof scaffolding placed at function start/end and loop body start/end.
    frame=<expr>: every loop of the function keeps <expr> unchanged (`let ghost verif_frameN = <expr>;` before the
    loop, `invariant <expr> == verif_frameN` in its header)."""
    places = places or {}
    if not loops_spec and not places and not frame:
        return s.text[body_open:body_close + 1]
    loops = s.loops(body_open, body_close)
    edits = []  # (index, order, text to insert)
    if frame:
        for n_, lp_ in enumerate(loops, 1):
            if loops_spec and n_ in loops_spec:
                continue
            edits.append((lp_["kw"], 0, "let ghost verif_frame%d = %s;\n" % (n_, frame)))
            edits.append((lp_["open"], 0, "\n    invariant %s == verif_frame%d,\n" % (frame, n_)))
            inv_ = norm_ws("%s == verif_frame%d" % (frame, n_))
            item.clauses["invariant"].append(inv_)
            item.carrying.append(inv_)

    def get_loop(n):
        if n < 1 or n > len(loops):
            raise AnchorLost("%s: loop #%d not found (function has %d loops)" % (item.ident, n, len(loops)))
        return loops[n - 1]

    for n, spec in (loops_spec or {}).items():
        lp = get_loop(n)
        ann = spec["text"].rstrip()
        if lp["kind"] == "for" and spec.get("iter"):
            hdr = s.m[lp["kw_end"]:lp["open"]]
            im = re.search(r"\bin\b", hdr)
            if not im:
                raise AnchorLost("%s: malformed for loop" % item.ident)
            pos = lp["kw_end"] + im.end()
            edits.append((pos, 0, " " + spec["iter"] + ":"))
        edits.append((lp["open"], 0, "\n" + ann + "\n"))
        cl = count_clauses(ann)
        for k in cl:
            item.clauses[k] += cl[k]
        if spec.get("carries"):
            item.carrying += count_clauses(ann.split("//@aux")[0])["invariant"]
    for key, txt in places.items():
        item.scaffold += txt.count("assert")
        if key == "fnstart":
            edits.append((body_open + 1, 1, "\n" + txt + "\n"))
        elif key == "fnend":
            edits.append((tail_expr_start(s, body_open, body_close), 0, txt + "\n"))
        elif key == "fntail":
            # proof text AFTER the tail expression: `EXPR` -> `let verif_tail = EXPR; <proof> verif_tail` (no semantic change)
            ts = tail_expr_start(s, body_open, body_close)
            if ts >= body_close:
                raise AnchorLost("%s: function has no tail expression" % item.ident)
            te = body_close
            while te > ts and s.text[te - 1] in " \t\n":
                te -= 1
            edits.append((ts, 2, "let verif_tail = "))
            edits.append((te, 0, ";\n" + txt + "\nverif_tail"))
        else:
            kind, n = key
            lp = get_loop(n)
            if kind == "loopbody":
                edits.append((lp["open"] + 1, 1, "\n" + txt + "\n"))
            else:
                edits.append((tail_expr_start(s, lp["open"], lp["close"]), 0, txt + "\n"))
    edits.sort(key=lambda e: (e[0], e[1]))
    out = []
    last = body_open
    for pos, _, txt in edits:
        out.append(s.text[last:pos])
        out.append(txt)
        last = pos
    out.append(s.text[last:body_close + 1])
    return "".join(out)


def render_fn(s, loc, contract, opts, item, indent=""):
    sig = s.text[loc["sig_start"]:loc["body_open"]].rstrip()
    sig = sig.strip()
    if opts.get("vis") != "keep":
        sig = re.sub(r"^pub(\([a-z]+\))?\s+", "", sig)
        if not opts.get("in_trait"):
            sig = "pub " + sig
    if "noret" not in opts:
        sig = name_result(sig, opts.get("ret", "r"))
    if opts.get("sigsub"):
        for a, b in opts["sigsub"]:
            if a not in sig:
                continue
            sig = sig.replace(a, b)
    cl = count_clauses(contract)
    for k in cl:
        item.clauses[k] += cl[k]
    if "trusted" in opts:
        item.trusted = True
        body = "{ unimplemented!() }"
        pre = "#[verifier::external_body]\n"
    else:
        body = splice_loops(s, loc["body_open"], loc["body_close"], opts.get("loops"), item, opts.get("places"), opts.get("loopframe"))
        body = apply_replacements(body, opts.get("repls", []), item)
        body = apply_befores(body, opts.get("befores", []), item)
        for a_, b_, note_ in opts.get("rewrites_all", []):
            if a_ not in body:
                raise AnchorLost("%s: expression %r not found" % (item.ident, a_))
            body = body.replace(a_, b_)
            item.rewrites.append({"old": a_, "new": b_, "note": "std-equivalent (all occurrences): " + note_})
        for rx_, rep_, note_ in opts.get("rewrites_rx", []):
            body, n_ = re.subn(rx_, rep_, body, flags=re.S)
            if n_ == 0:
                raise AnchorLost("%s: pattern %r not found" % (item.ident, rx_))
            item.rewrites.append({"old": "regex " + rx_, "new": rep_, "note": "std-equivalent (%d occurrences): %s" % (n_, note_)})
        for rx_, rep_, note_ in opts.get("rewrites_rx_opt", []):
            body, n_ = re.subn(rx_, rep_, body, flags=re.S)
            if n_:
                item.rewrites.append({"old": "regex " + rx_, "new": rep_, "note": "std-equivalent (%d occurrences): %s" % (n_, note_)})
        for recv_, inv_ in opts.get("filter_partitions", []):
            body = desugar_filter_partition(body, recv_, inv_, item)
        for recv_, ty_, inv_ in opts.get("map_collects", []):
            body = desugar_map_collect(body, recv_, ty_, inv_, item)
        for recv in opts.get("desugars", []):
            body = desugar_option_map(body, recv, item)
        for bind, ty in opts.get("annotates", []):
            pat = re.compile(re.escape(bind) + r"\s*=")
            ms = list(pat.finditer(body))
            if len(ms) != 1:
                raise AnchorLost("%s: binding %r found %d times" % (item.ident, bind, len(ms)))
            body = body[:ms[0].start()] + bind + ": " + ty + " =" + body[ms[0].end():]
        pre = ""
    parts = [pre + sig]
    if contract.strip():
        parts.append(contract.rstrip("\n"))
    return "\n".join(parts) + "\n" + body + "\n"


# --------------------------------------------------------------------------
# peg action extraction
# --------------------------------------------------------------------------

def find_peg_rule(s, rule):
    pat = re.compile(r"^[ \t]*(pub\s+)?rule\s+" + re.escape(rule) + r"\s*(<[^>\n]*>)?\s*\(", re.M)
    mm = pat.search(s.m)
    if not mm:
        raise AnchorLost("peg rule %s not found" % rule)
    # rule end: next line that starts a rule / or closing of grammar
    nxt = re.compile(r"^[ \t]*(///[^\n]*\n[ \t]*)*(#\[[^\n]*\]\s*)?(pub\s+)?rule\s+\w+", re.M)
    nm = nxt.search(s.m, mm.end())
    end = nm.start() if nm else len(s.m)
    # header: up to the first depth-0 '=' after '->' type (or after ')')
    par = s.m.find("(", mm.start())
    parc = s.match_close(par)
    k = parc + 1
    depth = 0
    eq = None
    while k < end:
        ch = s.m[k]
        if ch in "([{<":
            depth += 1
        elif ch in ")]}":
            depth -= 1
        elif ch == ">" and s.m[k - 1] != "-":
            depth -= 1
        elif ch == "=" and depth == 0 and s.m[k + 1] != "=" and s.m[k - 1] not in "=!<>":
            eq = k
            break
        k += 1
    if eq is None:
        raise AnchorLost("peg rule %s: '=' not found" % rule)
    hdr = s.text[parc + 1:eq]
    rm = re.search(r"->\s*(.*)$", hdr.strip(), re.S)
    ret = rm.group(1).strip() if rm else "()"
    # trim trailing comments / blank lines belonging to next rule
    return {"start": mm.start(), "args": s.text[par + 1:parc], "ret": ret, "body_start": eq + 1, "end": end}


def peg_alternatives(s, r):
    """Split rule body into alternatives on depth-0 '/'."""
    alts = []
    depth = 0
    last = r["body_start"]
    k = last
    while k < r["end"]:
        ch = s.m[k]
        if ch in "([{":
            depth += 1
        elif ch in ")]}":
            depth -= 1
        elif ch == "/" and depth == 0:
            alts.append((last, k))
            last = k + 1
        k += 1
    alts.append((last, r["end"]))
    return alts


def peg_blocks(s, a, b, out):
    """Walk the sequence text [a,b): collect every action block with the labels in scope
    (depth-0 labels of the sequence the block terminates). Appends dicts to out in
    textual order of the block's opening brace. Returns the labels of this sequence."""
    # split into alternatives at depth 0
    alts = []
    depth = 0
    last = a
    k = a
    while k < b:
        ch = s.m[k]
        if ch in "([{":
            k = s.match_close(k) + 1
            continue
        if ch == "/" and depth == 0:
            alts.append((last, k))
            last = k + 1
        k += 1
    alts.append((last, b))
    for (x, y) in alts:
        labels = []
        k = x
        own = []
        while k < y:
            ch = s.m[k]
            if ch == "(":
                c = s.match_close(k)
                peg_blocks(s, k + 1, c, out)
                k = c + 1
                continue
            if ch == "[":
                k = s.match_close(k) + 1
                continue
            if ch == "{":
                c = s.match_close(k)
                rec = {"open": k, "close": c, "labels": list(labels)}
                own.append(rec)
                out.append(rec)
                k = c + 1
                continue
            lm = re.match(r"([A-Za-z_]\w*)\s*:(?!:)", s.m[k:y])
            if lm and (k == 0 or not (s.m[k - 1].isalnum() or s.m[k - 1] == "_")):
                labels.append(lm.group(1))
                k += lm.end()
                continue
            im = re.match(r"[A-Za-z_]\w*", s.m[k:y])
            if im:
                k += im.end()
                continue
            k += 1
        for rec in own:
            rec["labels"] = list(labels) if rec is own[-1] else rec["labels"]
    out.sort(key=lambda r: r["open"])


def peg_action(s, a, b, block=None):
    """Within alternative [a,b): the chosen action block (default: the alternative's own,
    i.e. the last depth-0 block; block=N: N-th block in textual order incl. nested groups)."""
    blocks = []
    peg_blocks(s, a, b, blocks)
    if not blocks:
        raise AnchorLost("peg alternative has no action block")
    if block is None:
        # last block that is at depth 0 of the alternative
        top = [r for r in blocks if not any(o["open"] < r["open"] and r["close"] < o["close"] for o in blocks) and s.m[a:r["open"]].count("(") == s.m[a:r["open"]].count(")")]
        rec = top[-1] if top else blocks[-1]
    else:
        if block < 1 or block > len(blocks):
            raise AnchorLost("peg alternative has %d action blocks, wanted #%d" % (len(blocks), block))
        rec = blocks[block - 1]
    o, c = rec["open"], rec["close"]
    fallible = s.text[o + 1:o + 2] == "?"
    inner_start = o + 2 if fallible else o + 1
    return rec["labels"], fallible, inner_start, c


# --------------------------------------------------------------------------
# template processing
# --------------------------------------------------------------------------

def parse_kv(tokens):
    opts = {}
    pos = []
    for t in tokens:
        if "=" in t and re.match(r"^\w+=", t):
            k, v = t.split("=", 1)
            opts[k] = v
        else:
            pos.append(t)
    return pos, opts


class Gen:
    def __init__(self, unit_path, vacuity=False):
        self.unit_path = unit_path
        self.unit = os.path.splitext(os.path.basename(unit_path))[0]
        self.vacuity = vacuity
        self.out = []
        self.items = []
        self.props_default = []
        self.force_trusted = False
        self.rlimit = None
        self.substs = []
        self.dropped = []
        self.notes = []
        self.lineno = 1

    def emit(self, text):
        if not text.endswith("\n"):
            text += "\n"
        start = self.lineno
        self.out.append(text)
        self.lineno += text.count("\n")
        return (start, self.lineno - 1)

    def run(self):
        lines = open(self.unit_path, encoding="utf-8").read().split("\n")
        self.process(lines)
        return "".join(self.out)

    def process(self, lines):
        i = 0
        n = len(lines)
        while i < n:
            line = lines[i]
            st = line.strip()
            if not st.startswith("//@"):
                self.emit(line)
                i += 1
                continue
            toks = shlex.split(st[3:])
            if not toks:
                i += 1
                continue
            d = toks[0]
            if d == "unit":
                self.unit = toks[1]
                i += 1
            elif d == "property":
                self.props_default = toks[1:]
                i += 1
            elif d == "rlimit":
                self.rlimit = float(toks[1])
                i += 1
            elif d == "subst":
                self.substs.append((toks[1], toks[2]))
                i += 1
            elif d == "include":
                p = os.path.join(SPECS, toks[1])
                sub = open(p, encoding="utf-8").read().split("\n")
                self.emit("// ---- include %s%s" % (toks[1], " (contracts only: bodies verified in another unit)" if "trusted" in toks[2:] else ""))
                saved = self.force_trusted
                if "trusted" in toks[2:]:
                    self.force_trusted = True
                self.process(sub)
                self.force_trusted = saved
                i += 1
            elif d == "types":
                i = self.do_types(toks[1:], i + 1, lines)
            elif d == "const":
                s = src(toks[1])
                mm = re.search(r"^[ \t]*(pub(\([a-z]+\))?\s+)?const\s+" + re.escape(toks[2]) + r"\b", s.m, re.M)
                if not mm:
                    raise AnchorLost("const %s not found in %s" % (toks[2], toks[1]))
                # the item ends at the first `;` outside brackets (an array type `[T; N]` contains one)
                k_ = mm.end()
                d_ = 0
                while k_ < len(s.m) and not (s.m[k_] == ";" and d_ == 0):
                    if s.m[k_] in "([{":
                        d_ += 1
                    elif s.m[k_] in ")]}":
                        d_ -= 1
                    k_ += 1
                txt = s.text[mm.start():k_ + 1].strip()
                txt = re.sub(r"^pub(\([a-z]+\))?\s+", "", txt)
                for a, b in self.substs:
                    if a in txt:
                        txt = txt.replace(a, b)
                        self.notes.append("foreign constant expression `%s` replaced by assumed value `%s`" % (a, b))
                self.emit("pub " + txt)
                i += 1
            elif d == "fn":
                i = self.do_fn(toks[1:], i + 1, lines)
            elif d == "impl":
                i = self.do_impl(toks[1:], i + 1, lines)
            elif d == "problems":
                self.do_problems()
                i += 1
            elif d == "peg":
                i = self.do_peg(toks[1:], i + 1, lines)
            elif d == "pegguard":
                i = self.do_pegguard(toks[1:], i + 1, lines)
            elif d == "lemma":
                i = self.do_lemma(toks[1:], i + 1, lines)
            elif d == "recurse_visit":
                self.do_recurse_visit(toks[1:])
                i += 1
            elif d == "recurse_fold":
                self.do_recurse_visit(toks[1:], fold=True)
                i += 1
            elif d == "logos_table":
                self.do_logos_table(toks[1:])
                i += 1
            else:
                raise SystemExit("unknown directive %s in %s" % (d, self.unit_path))

    # collect contract + sub-directives for a fn-like block; returns (contract, opts_update, next_i, terminator)
    def collect(self, i, lines, terminators=("end",)):
        contract = []
        loops = {}
        repls = []
        sigsub = []
        befores = []
        annotates = []
        rewrites_all = []
        rewrites_rx = []
        map_collects = []
        filter_partitions = []
        mc_args = None
        desugars = []
        places = {}
        anchor = None
        cur = contract
        n = len(lines)
        term = None
        mode = None
        old = []
        new = []
        note = ""
        injective = {}
        while i < n:
            st = lines[i].strip()
            if st.startswith("//@"):
                toks = shlex.split(st[3:])
                d = toks[0] if toks else ""
                if mode == "replace_old" and d == "with":
                    mode = "replace_new"
                    i += 1
                    continue
                if mode == "replace_new" and d == "endreplace":
                    repls.append(("\n".join(old), "\n".join(new), note))
                    mode = None
                    old, new = [], []
                    cur = contract
                    i += 1
                    continue
                if d == "loop":
                    pos, kv = parse_kv(toks[1:])
                    nloop = int(pos[0])
                    loops[nloop] = {"text": "", "iter": kv.get("iter"), "_buf": [], "carries": "carries" in pos[1:]}
                    cur = loops[nloop]["_buf"]
                    i += 1
                    continue
                if d == "before":
                    mode = "before"
                    anchor = toks[1]
                    i += 1
                    continue
                if mode == "before" and d == "endbefore":
                    befores.append((anchor, "\n".join(new)))
                    new = []
                    mode = None
                    i += 1
                    continue
                if d == "aux":
                    # following clauses of the current loop block are auxiliary (not property-carrying)
                    cur.append("//@aux")
                    i += 1
                    continue
                if d in ("fnstart", "fnend", "fntail"):
                    places[d] = []
                    cur = places[d]
                    i += 1
                    continue
                if d in ("loopbody", "loopend"):
                    nloop = int(toks[1])
                    key = (d, nloop)
                    places[key] = []
                    cur = places[key]
                    i += 1
                    continue
                if d == "replace":
                    mode = "replace_old"
                    note = " ".join(toks[1:])
                    i += 1
                    continue
                if d == "rewrite_all":
                    # //@rewrite_all <old expr> <new expr> <note...>: every occurrence (>= 1) of an std call is rewritten to
                    # a specified stand-in (recorded as a std-equivalent rewrite)
                    rewrites_all.append((toks[1], toks[2], " ".join(toks[3:])))
                    i += 1
                    continue
                if d == "rewrite_regex":
                    # //@rewrite_regex <python regex> <replacement> <note...>: std call pattern -> specified stand-in (>= 1 match)
                    rewrites_rx.append((toks[1], toks[2], " ".join(toks[3:])))
                    i += 1
                    continue
                if d == "annotate":
                    # //@annotate <binding text> <Type>: adds `: Type` to a `let` binding (no executable token changes)
                    annotates.append((toks[1], toks[2]))
                    i += 1
                    continue
                if d == "desugar_map_collect":
                    # //@desugar_map_collect <recv> <ElemType> ; raw lines up to //@enddesugar = invariant of the generated loop
                    # `<recv>.into_iter().map(|p| body).collect()` -> `{ let mut verif_out: Vec<T> = Vec::new();
                    #     for p in verif_it: <recv> invariant .. { verif_out.push(body); } verif_out }`  (definition of map/collect on Vec)
                    mode = "mapcollect"
                    mc_args = (toks[1], toks[2])
                    new = []
                    i += 1
                    continue
                if mode == "filterpartition" and d == "body":
                    new.append("//@body")
                    i += 1
                    continue
                if d == "desugar_filter_partition":
                    # //@desugar_filter_partition <recv> ; raw lines up to //@enddesugar = invariant of the generated loop
                    mode = "filterpartition"
                    mc_args = (toks[1],)
                    new = []
                    i += 1
                    continue
                if mode == "filterpartition" and d == "enddesugar":
                    filter_partitions.append((mc_args[0], "\n".join(new)))
                    new = []
                    mode = None
                    i += 1
                    continue
                if mode == "mapcollect" and d == "enddesugar":
                    map_collects.append((mc_args[0], mc_args[1], "\n".join(new)))
                    new = []
                    mode = None
                    i += 1
                    continue
                if d == "desugar_result_map":
                    # `<recv>.map(|p| body)` on a Result -> `match <recv> { Ok(p) => Ok(body), Err(verif_e) => Err(verif_e) }`
                    desugars.append("result:" + toks[1])
                    i += 1
                    continue
                if d == "desugar_option_map":
                    # //@desugar_option_map <receiver>: `<receiver>.map(|p| body)` -> `match <receiver> { Some(p) => Some(body), None => None }`
                    desugars.append(toks[1])
                    i += 1
                    continue
                if d == "sigsub":
                    sigsub.append((toks[1], toks[2]))
                    i += 1
                    continue
                if d == "injective":
                    # //@injective [param=<expr over param> ...]: generate the lemma "two sets of captured parts with the
                    # same result node are the same parts" (by default compared as a whole, or via the given expression)
                    injective = dict(t.split("=", 1) for t in toks[1:] if "=" in t)
                    injective["__on"] = True
                    i += 1
                    continue
                if d in terminators or d in ("method",):
                    term = d
                    break
                raise SystemExit("unexpected directive %r inside block (%s)" % (st, self.unit_path))
            if mode == "replace_old":
                old.append(lines[i])
            elif mode in ("replace_new", "before", "mapcollect", "filterpartition"):
                new.append(lines[i])
            else:
                cur.append(lines[i])
            i += 1
        for k in loops:
            loops[k]["text"] = "\n".join(loops[k].pop("_buf"))
        return "\n".join(contract), {"loops": loops, "repls": repls, "sigsub": sigsub, "befores": befores, "annotates": annotates, "desugars": desugars, "rewrites_all": rewrites_all, "rewrites_rx": rewrites_rx, "map_collects": map_collects, "filter_partitions": filter_partitions, "injective": injective,
                                    "places": {k: "\n".join(v) for k, v in places.items()}}, i, term

    def vac(self, contract, ident=None):
        if not self.vacuity or (self.vacuity is not True and (self.unit + "/" + ident) not in self.vacuity):
            return contract
        if re.search(r"^\s*ensures\b", contract, re.M):
            return re.sub(r"^(\s*)ensures\b", r"\1ensures false,", contract, count=1, flags=re.M)
        # insert before decreases if present
        dm = re.search(r"^\s*decreases\b", contract, re.M)
        if dm:
            return contract[:dm.start()] + "    ensures false,\n" + contract[dm.start():]
        return contract.rstrip("\n") + "\n    ensures false,"

    def do_types(self, toks, i, lines):
        pos, kv = parse_kv(toks)
        rel = pos[0]
        names = pos[1:]
        s = src(rel)
        opts = {"noclone": set(kv.get("noclone", "").split(",")) if kv.get("noclone") else set()}
        exclude = set(kv.get("except", "").split(",")) if kv.get("except") else set()
        ts = [s.find_type(nm) for nm in names] if names else [t for t in s.all_types() if t["name"] not in exclude]
        for t in ts:
            txt, dropped, notes = render_type(s, t, opts)
            for a, b in self.substs:
                if a in txt:
                    txt = txt.replace(a, b)
                    self.notes.append("in type %s: `%s` rewritten to `%s`" % (t["name"], a, b))
            # reject=Scope:K,V;SymbolTable:K,V  -> verifier attributes generic stand-in containers need
            for ent in (kv.get("reject") or "").split(";"):
                if ent and ent.split(":")[0] == t["name"]:
                    attrs = "".join("#[verifier::reject_recursive_types(%s)]\n" % g for g in ent.split(":")[1].split(","))
                    txt = re.sub(r"^pub (struct|enum)", attrs + r"pub \1", txt, count=1, flags=re.M)
            rng = self.emit("// ---- type %s from %s:%d" % (t["name"], rel, s.line_of(t["start"])))
            self.emit(txt)
            for dd in dropped:
                self.dropped.append("derive(%s) on %s" % (dd, t["name"]))
            self.notes += notes
        return i

    def new_item(self, ident, kind, kv, rel, s, a, b):
        props = kv["props"].split(",") if kv.get("props") else list(self.props_default)
        it = Item(self.unit + "/" + ident, kind, props, rel, [s.line_of(a), s.line_of(b)], sha(s.text[a:b + 1]))
        it.body_text = s.m[a:b + 1]
        if kind == "peg":
            it.name = kv.get("name", "act")
        self.items.append(it)
        return it

    def do_logos_table(self, toks):
        """//@logos_table <file> <Enum>: the #[token]/#[regex] attributes of the enum as a spec function + the lemma that
        no attribute makes letter case matter (gen_tokens.py). The lemma is an item of its own."""
        import gen_tokens
        rel, enum = toks[0], toks[1]
        s = src(rel)
        tab, lem, variants = gen_tokens.generate(s.text, enum)
        self.notes.append("tok_attrs: %d attributes of %d variants of %s extracted from %s" % (sum(len(a) for _, a in variants), len(variants), enum, rel))
        self.emit(tab)
        t = s.find_type(enum)
        props = [p_ for p_ in self.props_default if p_ != "C04"]
        it = Item(self.unit + "/lemma:keywords_match_in_any_case", "lemma", props, rel, [s.line_of(t["attr_start"]), s.line_of(t["end"] - 1)], sha(tab))
        it.name = "lemma_keywords_match_in_any_case"
        it.body_text = mask(lem)
        it.clauses["ensures"].append("attrs_case_ok(tok_attrs(t), tok_attrs(t).len() as int)")
        self.items.append(it)
        self.emit("// ---- property lemma: no token attribute makes the letter case of the source matter")
        it.gen_lines = self.emit(self.vac(lem, "lemma:keywords_match_in_any_case"))

    def do_recurse_visit(self, toks, fold=False):
        """//@recurse_visit <dsl file> ... : the derive(Recurse)-generated `recurse_visit` of every type of the listed files,
        body from the compiler's macro expansion of the current tree, contract from the type definition (gen_recurse.py)."""
        import expand
        import gen_recurse
        pos, kv = parse_kv(toks)
        only = set(kv["only"].split(",")) if kv.get("only") else None
        part = [int(x) for x in kv["part"].split("/")] if kv.get("part") else None   # part=k/n: every n-th type, starting at k
        types = []
        for rel in pos:
            s = src(rel)
            for t in s.all_types():
                td = gen_recurse.parse_type_def(s, t)
                if td and (only is None or td["name"] in only):
                    td["rel"] = rel
                    td["lines"] = [s.line_of(t["attr_start"]), s.line_of(t["end"] - 1)]
                    td["def_text"] = s.text[t["attr_start"]:t["end"]]
                    types.append(td)
        try:
            exp = expand.expanded("ironplc-dsl")
        except expand.ExpandError as e:
            raise AnchorLost(str(e))
        if part:
            types = [td for i_, td in enumerate(types) if i_ % part[1] == part[0] - 1]
        leaf_ok = tuple(kv["leaf_ok"].split(",")) if kv.get("leaf_ok") else ()
        first_part = (part is None or part[0] == 1)
        common, items = gen_recurse.generate_fold(types, exp, leaf_ok, first_part) if fold else gen_recurse.generate(types, exp, None, leaf_ok, first_part)
        self.notes.append("recurse_visit / recurse_fold bodies are taken from the compiler's macro expansion of the current tree (RUSTC_BOOTSTRAP=1 cargo rustc -p ironplc-dsl -- -Zunpretty=expanded); contracts are generated from the type definitions (fields, containers, #[recurse(ignore)])")
        self.emit(common)
        for td, text, rewrites, ens in items:
            if td.get("default"):
                ident = "%s::%s(default)" % (td["name"], td["method"])
                vs = src(td["rel"])
                lm_ = re.search(r"^[ \t]*(dispatch|leaf)!\(\s*" + re.escape(td["node"]) + r"\s*\)", vs.text, re.M)
                td["lines"] = [vs.line_of(lm_.start()), vs.line_of(lm_.end())] if lm_ else [1, 1]
                td["def_text"] = lm_.group(0) if lm_ else ""
            else:
                ident = "%s::%s" % (td["name"], "recurse_fold" if fold else "recurse_visit")
            it = Item(self.unit + "/" + ident, "method", list(self.props_default), td["rel"], td["lines"], sha(td["def_text"] + text))
            # the name is what the vacuity colouring looks for in the other bodies: a default method mentions `T::recurse_visit`,
            # the generated traversals mention only visitor methods (never one another)
            it.name = (("default_" + td["method"]) if td.get("default") else (td["name"] + ("::recurse_fold" if fold else "::recurse_visit")))  # none of these functions calls another (they call the visitor)
            it.body_text = mask(text)
            if td.get("default"):
                # (for the vacuity colouring: the default may call the generated traversal of its node type in method-call form)
                it.body_text += " %s::%s " % (td["node"], "recurse_fold" if fold else "recurse_visit")
            for e in ens:
                it.clauses["ensures"].append(e)
            for inv in re.findall(r"^\s+(verif_\w+ (?:is|<=|==)[^\n]*),$", text, re.M):
                it.clauses["invariant"].append(inv)
            if "decreases" in text:
                it.clauses["decreases"] += re.findall(r"decreases ([^\n]*),", text)
            it.rewrites = rewrites
            self.items.append(it)
            self.emit("// ---- %s: derive(Recurse) on %s:%d-%d, body from the macro expansion" % (ident, td["rel"], td["lines"][0], td["lines"][1]))
            it.gen_lines = self.emit(self.vac(text, ident))

    def do_lemma(self, toks, i, lines):
        """//@lemma <name> [props=..] ... //@end : a hand-written proof fn that states a property over the contracts of
        the unit (e.g. injectivity of a grammar action's result in its captured parts). It is an item of its own: a
        failed postcondition of the lemma is a failed obligation of the property."""
        pos, kv = parse_kv(toks)
        name = pos[0]
        body = []
        while i < len(lines) and lines[i].strip() != "//@end":
            body.append(lines[i])
            i += 1
        text = "\n".join(body)
        rel = "specs/units/" + os.path.basename(self.unit_path)
        # a property lemma says nothing about panics or termination: it never serves C04
        props = [p_ for p_ in (kv["props"].split(",") if kv.get("props") else list(self.props_default)) if p_ != "C04"]
        it = Item(self.unit + "/lemma:" + name, "lemma", props, rel, [i - len(body) + 1, i], sha(text))
        it.name = name
        it.body_text = mask(text)
        cm = re.search(r"\)\s*\n(.*?)\n\{", text, re.S)
        cl = count_clauses(cm.group(1) if cm else text)
        for k in cl:
            it.clauses[k] += cl[k]
        self.items.append(it)
        self.emit("// ---- property lemma %s (hand-written, over the contracts above)" % name)
        it.gen_lines = self.emit(self.vac(text, "lemma:" + name))
        return i + 1

    def do_fn(self, toks, i, lines):
        pos, kv = parse_kv(toks)
        rel, name = pos[0], pos[1]
        flags = set(pos[2:])
        s = src(rel)
        loc = s.find_fn(name)
        contract, extra, i, term = self.collect(i, lines)
        item = self.new_item(kv.get("id", name), "fn", kv, rel, s, loc["sig_start"], loc["body_close"])
        opts = dict(kv)
        opts.update(extra)
        for f in flags:
            opts[f] = True
        if self.force_trusted:
            opts["trusted"] = True
            item.elsewhere = True
        c0 = len(self.out)
        hdr = self.emit("// ---- fn %s from %s:%d" % (name, rel, s.line_of(loc["sig_start"])))
        txt = render_fn(s, loc, self.vac(contract, kv.get("id", name)), opts, item)
        item.gen_lines = self.emit(txt)
        return i + 1

    def do_impl(self, toks, i, lines):
        pos, kv = parse_kv(toks)
        rel, header = pos[0], pos[1]
        s = src(rel)
        im = s.find_impl(header, int(kv.get("nth", "1")))
        newh = kv.get("as", im["header"])
        is_trait = " for " in (" " + newh + " ")
        self.emit("// ---- impl %s from %s:%d" % (header, rel, s.line_of(im["kw"])))
        self.emit("impl %s {" % newh)
        if is_trait:
            # carry associated types
            for tm in re.finditer(r"^[ \t]*type\s+\w+\s*=[^;]*;", s.m[im["open"]:im["close"]], re.M):
                a = im["open"] + tm.start()
                self.emit(s.text[a:im["open"] + tm.end()])
        # expect //@method blocks until //@end
        n = len(lines)
        each = {"sigsub": [], "rewrites_rx_opt": []}
        autostub = None
        defined = set()
        impl_start = len(self.out)

        def emit_method(mname, mkv, flags, contract, extra):
            loc = s.find_fn(mname, im["open"] + 1, im["close"])
            if not contract.strip() and each.get("ensures"):
                contract = "    ensures " + each["ensures"] + ","
            extra = dict(extra)
            extra["sigsub"] = list(extra.get("sigsub", [])) + each["sigsub"]
            if each.get("loopframe"):
                extra["loopframe"] = each["loopframe"]
            extra["rewrites_rx_opt"] = each["rewrites_rx_opt"]
            defined.add(mname)
            ident = "%s::%s" % (kv.get("id", norm_ws(header)), mname)
            item = self.new_item(ident, "method", mkv if mkv.get("props") else {**mkv, **({"props": kv["props"]} if kv.get("props") else {})}, rel, s, loc["sig_start"], loc["body_close"])
            opts = dict(mkv)
            opts.update(extra)
            for f in flags:
                opts[f] = True
            if is_trait:
                opts["in_trait"] = True
            if self.force_trusted:
                opts["trusted"] = True
                item.elsewhere = True
            self.emit("// ---- method %s from %s:%d" % (mname, rel, s.line_of(loc["sig_start"])))
            txt = render_fn(s, loc, self.vac(contract, ident), opts, item)
            item.gen_lines = self.emit(txt)

        while i < n:
            st = lines[i].strip()
            if not st:
                i += 1
                continue
            if not st.startswith("//@"):
                # raw line inside impl (e.g. spec fn) is copied
                self.emit(lines[i])
                i += 1
                continue
            toks2 = shlex.split(st[3:])
            if toks2[0] == "end":
                i += 1
                break
            if toks2[0] == "assoc":
                cm = re.search(r"^[ \t]*(pub(\([a-z]+\))?\s+)?const\s+" + re.escape(toks2[1]) + r"\b[^;]*;", s.m[im["open"]:im["close"]], re.M)
                if not cm:
                    raise AnchorLost("assoc const %s not found in impl %s" % (toks2[1], header))
                self.emit(s.text[im["open"] + cm.start():im["open"] + cm.end()])
                i += 1
                continue
            if toks2[0] == "each":
                # impl-level defaults applied to every following method of this impl:
                #   //@each sigsub <a> <b> | //@each loopframe <expr> | //@each rewrite_regex <rx> <rep> <note> (where it matches)
                #   //@each ensures <clause text>  (contract of a method that states none)
                if toks2[1] == "sigsub":
                    each["sigsub"].append((toks2[2], toks2[3]))
                elif toks2[1] == "loopframe":
                    each["loopframe"] = " ".join(toks2[2:])
                elif toks2[1] == "rewrite_regex":
                    each["rewrites_rx_opt"].append((toks2[2], toks2[3], " ".join(toks2[4:])))
                elif toks2[1] == "ensures":
                    each["ensures"] = " ".join(toks2[2:])
                else:
                    raise SystemExit("unknown //@each %s" % toks2[1])
                i += 1
                continue
            if toks2[0] == "autostub":
                # //@autostub <ensures clause>: every `self.visit_*(x)` call to a method this impl does not extract gets a
                # generic external_body stand-in with that contract (ASSUMED; listed in the notes)
                autostub = " ".join(toks2[1:])
                i += 1
                continue
            if toks2[0] == "methods":
                # //@methods a b c: methods that take the impl-level default contract and options
                for m_ in toks2[1:]:
                    emit_method(m_, {}, set(), "", {})
                i += 1
                continue
            if toks2[0] != "method":
                raise SystemExit("expected //@method or //@end in impl block, got %r" % st)
            mpos, mkv = parse_kv(toks2[1:])
            contract, extra, i, term = self.collect(i + 1, lines, terminators=("end", "method", "methods", "each", "autostub"))
            emit_method(mpos[0], mkv, set(mpos[1:]), contract, extra)
        if autostub:
            body_txt = mask("\n".join(self.out[impl_start:]))
            called = sorted(set(re.findall(r"\bself\s*\.\s*(visit_\w+)\s*\(", body_txt)) - defined)
            for nm in called:
                self.emit("    #[verifier::external_body]\n    pub fn %s<VerifT: ?Sized>(&mut self, node: &VerifT) -> (r: Result<(), Diagnostic>)\n        ensures %s,\n    { unimplemented!() }" % (nm, autostub))
            if called:
                self.notes.append("ASSUMED stand-ins (default trait methods / overrides not extracted) in impl %s: %s" % (newh, ", ".join(called)))
        # an impl of Visitor / Fold changes the traversal by every method it overrides: all of them must be under contract
        # (or named in `unlisted=a,b` with the unit saying why); an override the unit does not know is a lost anchor
        if re.search(r"\b(Visitor|Fold)\s*<", im["header"]):
            allm = set(re.findall(r"\bfn\s+(\w+)\s*[<(]", s.m[im["open"]:im["close"]]))
            # only depth-1 functions of the impl
            allm = set(nm for nm in allm if s.find_fn(nm, im["open"] + 1, im["close"]))
            ok = set(kv.get("unlisted", "").split(",")) if kv.get("unlisted") else set()
            extra_m = sorted(allm - defined - ok)
            if extra_m:
                raise AnchorLost("impl %s in %s overrides %s, which %s does not put under contract" % (header, rel, ", ".join(extra_m), self.unit))
        self.emit("}")
        return i

    def do_peg(self, toks, i, lines):
        pos, kv = parse_kv(toks)
        rel, rule, alt = pos[0], pos[1], int(pos[2])
        flags = set(pos[3:])
        s = src(rel)
        r = find_peg_rule(s, rule)
        alts = peg_alternatives(s, r)
        if alt < 1 or alt > len(alts):
            raise AnchorLost("peg rule %s has %d alternatives, wanted #%d" % (rule, len(alts), alt))
        a, b = alts[alt - 1]
        labels, fallible, bs, be = peg_action(s, a, b, int(kv["block"]) if kv.get("block") else None)
        params = kv.get("params", "")
        pnames = [p.split(":")[0].strip() for p in split_depth0(params, ",") if p.strip()]
        extra_params = [p for p in kv.get("ruleargs", "").split(",") if p]
        # the captured values, in the order the grammar binds them: a relabelled or reordered pattern is a lost anchor
        if pnames != labels + extra_params and pnames != extra_params + labels:
            raise AnchorLost("peg rule %s alt %d: labels in grammar %s != labels in spec %s" % (rule, alt, labels, pnames))
        ret = kv.get("ret", r["ret"])
        ret = ret.replace("&'input ", "&")
        if fallible:
            ret = "Result<%s, &'static str>" % ret
        contract, extra, i, term = self.collect(i, lines)
        fname = kv.get("name", "act_%s_%d" % (rule, alt))
        # discipline on the specification itself: a grammar action's contract must say where every captured part
        # ends up ("nothing written is dropped"); a capture that the contract never mentions is a hole in the spec
        unmentioned = [p_ for p_ in pnames if not re.search(r"\b" + re.escape(p_) + r"\b", mask(contract))]
        if unmentioned and "partial" not in flags:
            raise SystemExit("%s: contract of grammar action %s alt %d does not mention captured part(s) %s" % (self.unit_path, rule, alt, unmentioned))
        pid_ = "peg:%s#%d" % (rule, alt) + (".%s" % kv["block"] if kv.get("block") else "")
        item = self.new_item(pid_, "peg", kv, rel, s, bs, be)
        cl = count_clauses(contract)
        for k in cl:
            item.clauses[k] += cl[k]
        o_idx = bs - (2 if fallible else 1)
        whole = splice_loops(s, o_idx, be, extra.get("loops"), item, extra.get("places"))
        body = whole[(2 if fallible else 1):-1]
        body = apply_replacements(body, extra.get("repls", []), item)
        body = apply_befores(body, extra.get("befores", []), item)
        for a_, b_, note_ in extra.get("rewrites_all", []):
            if a_ not in body:
                raise AnchorLost("%s: expression %r not found" % (item.ident, a_))
            body = body.replace(a_, b_)
            item.rewrites.append({"old": a_, "new": b_, "note": "std-equivalent (all occurrences): " + note_})
        for recv_, ty_, inv_ in extra.get("map_collects", []):
            body = desugar_map_collect(body, recv_, ty_, inv_, item)
        for recv in extra.get("desugars", []):
            body = desugar_option_map(body, recv, item)
        for bind, ty in extra.get("annotates", []):
            pat = re.compile(re.escape(bind) + r"\s*=")
            ms = list(pat.finditer(body))
            if len(ms) != 1:
                raise AnchorLost("%s: binding %r found %d times" % (item.ident, bind, len(ms)))
            body = body[:ms[0].start()] + bind + ": " + ty + " =" + body[ms[0].end():]
        self.emit("// ---- peg action %s alt %d from %s:%d" % (rule, alt, rel, s.line_of(bs)))
        sig = "pub fn %s(%s) -> (%s: %s)" % (fname, params, kv.get("retname", "r"), ret)
        c = self.vac(contract, pid_)
        txt = sig + "\n" + (c.rstrip("\n") + "\n" if c.strip() else "") + "{" + body + "}\n"
        inj = extra.get("injective") or {}
        lemma_txt = None
        if inj.get("__on") and pnames:
            # the ensures clauses as a relation post(parts, r); lemma: post(a, r) && post(b, r) ==> a == b (part by part)
            plist = [(p_.split(":", 1)[0].strip(), p_.split(":", 1)[1].strip()) for p_ in split_depth0(params, ",") if p_.strip()]
            rname = kv.get("retname", "r")
            ens = [e for e in count_clauses(contract)["ensures"]]

            def rename(text, suffix):
                for (pn, _) in plist:
                    text = re.sub(r"(?<![\w.])" + re.escape(pn) + r"\b(?!\s*:)", pn + suffix, text)
                return text
            def key(pn, pt):
                # vectors are compared by their contents (the view), everything else as a whole, unless overridden
                return inj.get(pn, pn + "@" if pt.startswith("Vec<") else pn)
            concl = ["%s == %s" % (rename(key(pn, pt), "_1"), rename(key(pn, pt), "_2")) for (pn, pt) in plist]
            lname = "lemma_keeps_%s" % fname
            sig_params = ", ".join("%s: %s" % (pn, pt) for pn, pt in plist)
            lemma_txt = ("/// the postcondition of %s as a relation between the captured parts and the node built\n"
                         "pub open spec fn post_%s(%s%s%s: %s) -> bool {\n    &&& %s\n}\n"
                         "pub proof fn %s(%s, %s, %s: %s)\n    requires\n        post_%s(%s%s%s), post_%s(%s%s%s),\n    ensures\n        %s,\n{\n}\n") % (
                fname, fname, sig_params, ", " if plist else "", rname, ret, "\n    &&& ".join("(" + e + ")" for e in ens),
                lname, ", ".join("%s_1: %s" % (pn, pt) for pn, pt in plist), ", ".join("%s_2: %s" % (pn, pt) for pn, pt in plist), rname, ret,
                fname, ", ".join(pn + "_1" for pn, _ in plist), ", " if plist else "", rname,
                fname, ", ".join(pn + "_2" for pn, _ in plist), ", " if plist else "", rname,
                ",\n        ".join(concl))
        item.gen_lines = self.emit(txt)
        if lemma_txt:
            lit = Item(self.unit + "/lemma:keeps_" + fname, "lemma", [p_ for p_ in item.props if p_ != "C04"], rel, list(item.src_lines), sha(lemma_txt))
            lit.name = "lemma_keeps_" + fname
            lit.body_text = mask(lemma_txt)
            lit.clauses["ensures"] += [norm_ws(c_) for c_ in concl]
            self.items.append(lit)
            self.emit("// ---- property lemma (generated from the contract above): no captured part of %s alt %d is dropped" % (rule, alt))
            lit.gen_lines = self.emit(self.vac(lemma_txt, "lemma:keeps_" + fname))
        return i + 1


def _do_pegguard(self, toks, i, lines):
    """//@pegguard <file> <rule> name=<fn> params="t: &Token, val: &str": the boolean guard of a
    `[pat if guard]` element pattern of the rule, as `fn name(params) -> bool { guard }`."""
    pos, kv = parse_kv(toks)
    rel, rule = pos[0], pos[1]
    s = src(rel)
    r = find_peg_rule(s, rule)
    mm = re.search(r"\[\s*([A-Za-z_]\w*)\s+if\b", s.m[r["body_start"]:r["end"]])
    if not mm:
        raise AnchorLost("peg rule %s has no `[x if guard]` pattern" % rule)
    br = r["body_start"] + mm.start()
    close = s.match_close(br)
    gstart = r["body_start"] + mm.end()
    var = mm.group(1)
    params = kv.get("params", "")
    pnames = [p.split(":")[0].strip() for p in split_depth0(params, ",") if p.strip()]
    if not pnames or pnames[0] != var:
        raise AnchorLost("peg rule %s: pattern variable %s != first parameter of spec %s" % (rule, var, pnames))
    contract, extra, i, term = self.collect(i, lines)
    fname = kv.get("name", "guard_" + rule)
    ident = "pegguard:%s" % rule
    item = self.new_item(ident, "peg", kv, rel, s, gstart, close - 1)
    item.name = fname
    cl = count_clauses(contract)
    for k in cl:
        item.clauses[k] += cl[k]
    self.emit("// ---- peg pattern guard of rule %s from %s:%d" % (rule, rel, s.line_of(gstart)))
    c = self.vac(contract, ident)
    txt = "pub fn %s(%s) -> (r: bool)\n" % (fname, params) + (c.rstrip("\n") + "\n" if c.strip() else "") + "{" + s.text[gstart:close] + "}\n"
    item.gen_lines = self.emit(txt)
    return i + 1


Gen.do_pegguard = _do_pegguard


def _do_problems(self):
    """`Problem` is generated by problems/build.rs from problem-codes.csv: regenerate the enum
    (names) and the code table as a spec function from the same csv."""
    import csv
    p = os.path.join(CROOT, "problems", "resources", "problem-codes.csv")
    if not os.path.exists(p):
        raise AnchorLost("problem-codes.csv not found")
    rows = list(csv.reader(open(p, encoding="utf-8")))[1:]
    rows = [r for r in rows if len(r) >= 2]
    self.emit("// ---- enum Problem regenerated from problems/resources/problem-codes.csv (as problems/build.rs does)")
    self.emit("#[derive(PartialEq, Eq, Structural)]\npub enum Problem {\n" + "".join("    %s,\n" % r[1] for r in rows) + "}")
    self.emit("impl Problem {\n    pub open spec fn code_spec(&self) -> Seq<char> {\n        match self {\n" +
              "".join("            Problem::%s => \"%s\"@,\n" % (r[1], r[0]) for r in rows) + "        }\n    }\n}")
    self.emit("pub mod ironplc_problems { pub use super::Problem; }")
    self.notes.append("enum Problem and its code table regenerated from problem-codes.csv")


Gen.do_problems = _do_problems


def generate(unit_path, out_path, vacuity=False):
    g = Gen(unit_path, vacuity)
    text = g.run()
    os.makedirs(os.path.dirname(out_path), exist_ok=True)
    with open(out_path, "w", encoding="utf-8") as f:
        f.write(text)
    meta = {
        "unit": g.unit, "rlimit": g.rlimit, "vacuity": sorted(vacuity) if isinstance(vacuity, (set, list)) else bool(vacuity), "items": [it.to_json() for it in g.items],
        "dropped": sorted(set(g.dropped)), "notes": sorted(set(g.notes)),
    }
    with open(out_path + ".meta.json", "w") as f:
        json.dump(meta, f, indent=1)
    return meta


if __name__ == "__main__":
    import argparse
    ap = argparse.ArgumentParser()
    ap.add_argument("unit")
    ap.add_argument("-o", "--out", required=True)
    ap.add_argument("--vacuity", action="store_true")
    a = ap.parse_args()
    try:
        meta = generate(a.unit, a.out, a.vacuity)
    except AnchorLost as e:
        print("ANCHOR-LOST: %s" % e)
        sys.exit(2)
    print("generated %s: %d items" % (a.out, len(meta["items"])))
