#!/usr/bin/env python3
"""Witness search and replay on the REAL code.

A witness candidate never decides anything on its own: candidates attached to a
function (specs/witness/*.json) are only tried after the verifier has failed an
obligation of that function. A candidate is a concrete input plus the observation the
property demands; it is run through the `ironplcc` binary built from /repo's current
working tree (cargo build --offline, target dir under /verif/out). If the observation
differs, the violation is reproduced and the replay file carries the input.

Candidate kinds
  check   : files -> `ironplcc check <files>`; expect "accept" | "reject" [+ codes that must (not) appear]
  echo    : files -> `ironplcc echo <file>`;   expect_contains / expect_not_contains / expect "reject"
  tokens  : file  -> `ironplcc tokenize`;      expect list of [type, line, col] for selected token texts
  lsp     : scripted JSON-RPC session -> expectations on published diagnostics / semantic tokens
  lsp_protocol: arbitrary requests / notifications / client responses, then shutdown + exit: every request answered once
             with its id, nothing else answered, exit status 0 (C12)
  encodings: one text in several encodings -> same verdict, codes, positions, token positions (C14)
  cli     : list of invocations -> exit status, the line OK and coded diagnostics must agree (C13), expected status, same_as
"""
import glob
import hashlib
import json
import os
import re
import subprocess
import sys
import tempfile
import time

HERE = os.path.dirname(os.path.abspath(__file__))
VERIF = os.path.dirname(HERE)
REPO = os.environ.get("VERIF_REPO", "/repo")
TARGET = os.path.join(VERIF, "out", "target")
_built = {}


def build_ironplcc():
    """(path or None, log)"""
    if "bin" in _built:
        return _built["bin"]
    env = dict(os.environ, CARGO_TARGET_DIR=TARGET, CARGO_NET_OFFLINE="true")
    p = subprocess.run(["cargo", "build", "--offline", "-q", "--bin", "ironplcc"], cwd=os.path.join(REPO, "compiler"),
                       env=env, stdout=subprocess.PIPE, stderr=subprocess.STDOUT, text=True)
    binp = os.path.join(TARGET, "debug", "ironplcc")
    _built["bin"] = (binp if p.returncode == 0 and os.path.exists(binp) else None, p.stdout[-2000:])
    return _built["bin"]


def run(binp, args, cwd, stdin=None, timeout=60):
    try:
        p = subprocess.run([binp] + args, cwd=cwd, input=stdin, stdout=subprocess.PIPE, stderr=subprocess.PIPE, text=True, timeout=timeout)
        return p.returncode, p.stdout, p.stderr
    except subprocess.TimeoutExpired:
        return -9, "", "TIMEOUT"


ANSI = re.compile(r"\x1b\[[0-9;]*m")


def codes_of(text):
    return sorted(set(re.findall(r"\[(P\d{4})\]", ANSI.sub("", text))))


def lsp_session(binp, steps, cwd):
    """steps: list of {"open": [uri, text, version]} | {"change": [uri, text, version]} | {"tokens": uri}
    returns list of observations per step."""
    import threading
    p = subprocess.Popen([binp, "lsp", "--stdio"], cwd=cwd, stdin=subprocess.PIPE, stdout=subprocess.PIPE, stderr=subprocess.DEVNULL)
    out = []

    def send(msg):
        b = json.dumps(msg).encode()
        p.stdin.write(b"Content-Length: %d\r\n\r\n" % len(b) + b)
        p.stdin.flush()

    def recv(timeout=10):
        res = {}

        def rd():
            hdr = b""
            while not hdr.endswith(b"\r\n\r\n"):
                c = p.stdout.read(1)
                if not c:
                    return
                hdr += c
            n = int(re.search(rb"Content-Length: (\d+)", hdr).group(1))
            res["m"] = json.loads(p.stdout.read(n))
        t = threading.Thread(target=rd, daemon=True)
        t.start()
        t.join(timeout)
        return res.get("m")

    try:
        send({"jsonrpc": "2.0", "id": 1, "method": "initialize", "params": {"capabilities": {}, "processId": None, "rootUri": None}})
        recv()
        send({"jsonrpc": "2.0", "method": "initialized", "params": {}})
        rid = 10
        for st in steps:
            if "open" in st or "change" in st:
                uri, text, ver = st.get("open") or st.get("change")
                if "open" in st:
                    send({"jsonrpc": "2.0", "method": "textDocument/didOpen", "params": {"textDocument": {"uri": uri, "languageId": "st", "version": ver, "text": text}}})
                else:
                    # `text` may be a list: a didChange carrying several (or no) full-text content changes
                    texts = text if isinstance(text, list) else [text]
                    send({"jsonrpc": "2.0", "method": "textDocument/didChange", "params": {"textDocument": {"uri": uri, "version": ver}, "contentChanges": [{"text": t} for t in texts]}})
                m = recv()
                while m is not None and m.get("method") != "textDocument/publishDiagnostics":
                    m = recv()
                if m is None:
                    out.append({"publish": None})
                else:
                    ds = m["params"]["diagnostics"]
                    out.append({"publish": {"uri": m["params"]["uri"], "version": m["params"].get("version"),
                                            "diags": [[d.get("code"), d["range"]["start"]["line"], d["range"]["start"]["character"],
                                                       d["range"]["end"]["line"], d["range"]["end"]["character"]] for d in ds]}})
            elif "tokens" in st:
                rid += 1
                send({"jsonrpc": "2.0", "id": rid, "method": "textDocument/semanticTokens/full", "params": {"textDocument": {"uri": st["tokens"]}}})
                m = recv()
                while m is not None and m.get("id") != rid:
                    m = recv()
                out.append({"tokens": None if m is None else (m.get("result") or {}).get("data") if m.get("result") else None})
        send({"jsonrpc": "2.0", "id": 99, "method": "shutdown", "params": None})
        recv(3)
        send({"jsonrpc": "2.0", "method": "exit", "params": None})
    except Exception as e:  # broken pipe = server died
        out.append({"error": str(e)})
    finally:
        try:
            p.wait(timeout=5)
            if p.returncode not in (0, None):
                out.append({"server_exit": p.returncode})
        except subprocess.TimeoutExpired:
            p.kill()
    return out



def lsp_protocol_session(binp, steps, cwd):
    """C12: drives `ironplcc lsp --stdio` with arbitrary requests / notifications / client responses, then shutdown and
    exit. Returns (frames received, exit status or None, error)."""
    import threading, queue
    p = subprocess.Popen([binp, "lsp", "--stdio"], cwd=cwd, stdin=subprocess.PIPE, stdout=subprocess.PIPE, stderr=subprocess.DEVNULL)
    q = queue.Queue()

    def reader():
        try:
            while True:
                hdr = b""
                while not hdr.endswith(b"\r\n\r\n"):
                    ch = p.stdout.read(1)
                    if not ch:
                        q.put(None)
                        return
                    hdr += ch
                n = int(re.search(rb"Content-Length: (\d+)", hdr).group(1))
                q.put(json.loads(p.stdout.read(n)))
        except Exception:
            q.put(None)
    threading.Thread(target=reader, daemon=True).start()
    frames = []
    err = None

    def send(msg):
        b = json.dumps(msg).encode()
        p.stdin.write(b"Content-Length: %d\r\n\r\n" % len(b) + b)
        p.stdin.flush()

    def wait_for(pred, timeout=10):
        end = time.time() + timeout
        while time.time() < end:
            try:
                m = q.get(timeout=max(0.05, end - time.time()))
            except queue.Empty:
                return None
            if m is None:
                return None
            frames.append(m)
            if pred(m):
                return m
        return None
    sent_requests = []
    try:
        send({"jsonrpc": "2.0", "id": 1, "method": "initialize", "params": {"capabilities": {}, "processId": None, "rootUri": None}})
        wait_for(lambda m: m.get("id") == 1)
        frames.clear()
        send({"jsonrpc": "2.0", "method": "initialized", "params": {}})
        rid = 100
        for st in steps:
            if "request" in st:
                rid += 1
                method, params = st["request"]
                sent_requests.append(rid)
                send({"jsonrpc": "2.0", "id": rid, "method": method, "params": params})
                if wait_for(lambda m, rid=rid: m.get("id") == rid and "method" not in m) is None:
                    err = "request %d (%s) was not answered" % (rid, method)
                    break
            elif "notify" in st:
                method, params = st["notify"]
                send({"jsonrpc": "2.0", "method": method, "params": params})
            elif "response" in st:
                send({"jsonrpc": "2.0", "id": st["response"], "result": None})
            elif "open" in st:
                uri, text, ver = st["open"]
                send({"jsonrpc": "2.0", "method": "textDocument/didOpen", "params": {"textDocument": {"uri": uri, "languageId": "st", "version": ver, "text": text}}})
            elif "change" in st:
                uri, texts, ver = st["change"]
                send({"jsonrpc": "2.0", "method": "textDocument/didChange", "params": {"textDocument": {"uri": uri, "version": ver}, "contentChanges": [{"text": t} for t in texts]}})
        if err is None:
            sent_requests.append(9999)
            send({"jsonrpc": "2.0", "id": 9999, "method": "shutdown", "params": None})
            if wait_for(lambda m: m.get("id") == 9999 and "method" not in m) is None:
                err = "shutdown was not answered"
            send({"jsonrpc": "2.0", "method": "exit", "params": None})
    except Exception as e:
        err = "server died: %s" % e
    status = None
    try:
        status = p.wait(timeout=10)
    except subprocess.TimeoutExpired:
        p.kill()
        if err is None:
            err = "server did not terminate after shutdown and exit"
    # drain
    time.sleep(0.1)
    while not q.empty():
        m = q.get()
        if m is not None:
            frames.append(m)
    return frames, status, err, sent_requests


def decode_tokens(data):
    """LSP relative encoding -> absolute [line, start, length, type]"""
    res = []
    line = 0
    start = 0
    for i in range(0, len(data) - 4, 5):
        dl, ds, ln, ty, _ = data[i:i + 5]
        if dl:
            line += dl
            start = ds
        else:
            start += ds
        res.append([line, start, ln, ty])
    return res


def golden_observation(binp, cmd, d):
    """normalised output of `ironplcc <cmd> f.st` (in directory d): what the golden files store"""
    if cmd == "tokens_lsp":
        uri = "file:///tmp/verif_w/f.st"
        text = open(os.path.join(d, "f.st"), encoding="utf-8").read()
        out = lsp_session(binp, [{"open": [uri, text, 1]}, {"tokens": uri}], d)
        toks = out[1].get("tokens") if len(out) > 1 else None
        return json.dumps(None if toks is None else decode_tokens(toks))
    rc, so, se = run(binp, [cmd, "f.st"], d)
    plain = ANSI.sub("", so + "\n--stderr--\n" + se)
    plain = re.sub(r"[^ \n]*f\.st", "f.st", plain)
    if cmd == "check":
        # verdict, codes and positions; not the rendered snippets
        return json.dumps({"exit": rc, "codes": codes_of(plain), "positions": re.findall(r"f\.st:(\d+):(\d+)", plain)})
    return "exit %s\n" % rc + re.sub(r"[ \t]+", " ", plain)


def regolden():
    import bounded
    binp, log = build_ironplcc()
    n = 0
    for cmd in ("echo", "check", "tokenize", "tokens_lsp"):
        os.makedirs(os.path.join(VERIF, "specs", "golden", cmd), exist_ok=True)
        for name, text in bounded.corpus():
            with tempfile.TemporaryDirectory(prefix="verif_g_") as d:
                open(os.path.join(d, "f.st"), "w", encoding="utf-8", newline="").write(text)
                got = golden_observation(binp, cmd, d)
            open(os.path.join(VERIF, "specs", "golden", cmd, name.replace("/", "__") + ".txt"), "w", encoding="utf-8").write(got)
            n += 1
    print("wrote %d golden files" % n)


def run_candidate(c):
    """-> (reproduced: bool, observation: dict)"""
    binp, log = build_ironplcc()
    if not binp:
        return False, {"error": "could not build ironplcc", "log": log}
    with tempfile.TemporaryDirectory(prefix="verif_w_") as d:
        names = []
        for name, content in (c.get("files") or {}).items():
            path = os.path.join(d, name)
            os.makedirs(os.path.dirname(path), exist_ok=True)
            mode = "wb" if isinstance(content, dict) else "w"
            if isinstance(content, dict):
                open(path, "wb").write(bytes.fromhex(content["hex"]))
            else:
                open(path, "w", encoding="utf-8", newline="").write(content)
            names.append(name)
        for sub in c.get("dirs", []):
            os.makedirs(os.path.join(d, sub), exist_ok=True)
        for link, target in (c.get("symlinks") or {}).items():
            os.makedirs(os.path.dirname(os.path.join(d, link)), exist_ok=True)
            os.symlink(os.path.join(d, target), os.path.join(d, link))
        kind = c["kind"]
        obs = {}
        bad = []
        if kind == "lsp_vs_check":
            # C11's own oracle: after every didOpen / didChange the diagnostics published for the notified document are those
            # `ironplcc check` reports for that document on the CURRENT contents of all documents (code, line, column)
            names = []
            steps = []
            for nm, text in c["history"]:
                uri = "file://" + os.path.join(d, nm)
                steps.append({("open" if nm not in names else "change"): [uri, text, len(steps) + 1]})
                if nm not in names:
                    names.append(nm)
            out = lsp_session(binp, steps, d)
            out = [o for o in out if "server_exit" not in o and "error" not in o]
            cur = {}
            obs = {"steps": []}
            if len(out) < len(steps):
                bad.append("the server answered %d of %d notifications (it died or timed out)" % (len(out), len(steps)))
            for i, ((nm, text), o) in enumerate(zip(c["history"], out)):
                cur[nm] = text
                for n2, t2 in cur.items():
                    open(os.path.join(d, n2), "w", encoding="utf-8", newline="").write(t2)
                rc, so, se = run(binp, ["check"] + sorted(cur), d)
                plain = ANSI.sub("", so + se)
                want = sorted([code, int(l) - 1, int(col) - 1] for code, f_, l, col in re.findall(r"error\[(P\d{4})\][^\n]*\n\s*┌─ ([^\n:]*):(\d+):(\d+)", plain) if os.path.basename(f_) == nm)
                got = None if o.get("publish") is None else sorted([x[0], x[1], x[2]] for x in o["publish"]["diags"])
                obs["steps"].append({"step": i, "document": nm, "published": got, "check": want})
                if got is None:
                    obs["inconclusive"] = "timeout waiting for the server"
                    obs["mismatches"] = []
                    return False, obs
                if got != want:
                    bad.append("step %d (%s): published %s, `check` on the current contents reports %s" % (i, nm, got, want))
                if o["publish"].get("version") != i + 1:
                    bad.append("step %d: published version %s, the notification carried %d" % (i, o["publish"].get("version"), i + 1))
        elif kind == "golden":
            # regression against the vetted baseline: the output of `ironplcc <cmd>` for every program of the corpus must be what
            # it was on the tree whose units verified (specs/golden/<cmd>/<name>.txt, written by `tools/witness.py --regolden`)
            import bounded
            n_cmp = 0
            for name, text in bounded.corpus():
                gp = os.path.join(VERIF, "specs", "golden", c["cmd"], name.replace("/", "__") + ".txt")
                if not os.path.exists(gp):
                    continue
                open(os.path.join(d, "f.st"), "w", encoding="utf-8", newline="").write(text)
                got = golden_observation(binp, c["cmd"], d)
                n_cmp += 1
                want = open(gp, encoding="utf-8").read()
                if got != want:
                    first = next((i for i, (x, y) in enumerate(zip(got, want)) if x != y), min(len(got), len(want)))
                    bad.append("%s of %s differs from the baseline at character %d: got ...%s... expected ...%s..." % (
                        c["cmd"], name, first, got[max(0, first - 40):first + 60].replace("\n", " "), want[max(0, first - 40):first + 60].replace("\n", " ")))
                    if len(bad) >= 3:
                        break
            obs = {"programs_compared": n_cmp}
        elif kind == "lsp_tokens_vs_text":
            # every semantic-tokens answer of the session against the lexemes of the text the document has at that moment
            import bounded
            cur = {}
            expect = []
            for st in c["steps"]:
                if "open" in st or "change" in st:
                    uri, text, _ = st.get("open") or st.get("change")
                    if isinstance(text, list):
                        text = text[-1] if text else cur.get(uri, "")
                    cur[uri] = text
                else:
                    expect.append(cur.get(st["tokens"], ""))
            out = lsp_session(binp, c["steps"], d)
            obs = {}
            if any("server_exit" in o or "error" in o for o in out):
                bad.append("the language server died: %s" % [o for o in out if "server_exit" in o or "error" in o])
            else:
                answers = [o for o in out if "tokens" in o]
                if any(("publish" in o and o["publish"] is None) for o in out) or len(answers) != len(expect):
                    obs["inconclusive"] = "timeout waiting for the server"
                    obs["mismatches"] = []
                    return False, obs
                for k, (o, t) in enumerate(zip(answers, expect)):
                    b = bounded.token_answer_mismatches(binp, t, o["tokens"], d)
                    if b:
                        bad.append("token request %d: %s" % (k, "; ".join(b)))
                        break
        elif kind == "tokens_tile":
            import bounded
            text = list(c["files"].values())[0]
            bad = bounded.tile_mismatches(binp, text, d) or []
            obs = {"mismatches_detail": bad}
        elif kind == "bounded_pair":
            import bounded
            bad, obs = bounded.replay_pair(binp, c["original_text"], c["transformed_text"], c.get("fold_case", False))
        elif kind == "cli":
            # the command-line contract itself (C13) on a list of invocations: exit status, the line OK and the coded
            # diagnostics on stderr must agree; optionally the expected status and "same verdict as run k"
            runs = []
            for k, r in enumerate(c["runs"]):
                rc, so, se = run(binp, r["args"], d)
                plain = ANSI.sub("", se)
                ncodes = len(re.findall(r"error\[P\d{4}\]", plain))
                ok_line = any(l.strip() == "OK" for l in so.splitlines())
                cmd = r["args"][0]
                runs.append({"args": r["args"], "exit": rc, "ok_line": ok_line, "coded_diagnostics": ncodes, "codes": codes_of(plain)})
                what = " ".join(r["args"])
                if rc not in (0, 1):
                    bad.append("`%s`: crash/abnormal exit %s" % (what, rc))
                if cmd in ("check", "tokenize") and (rc == 0) != ok_line:
                    bad.append("`%s`: exit status %s but OK %s" % (what, rc, "printed" if ok_line else "not printed"))
                if cmd == "echo" and ok_line:
                    bad.append("`%s`: echo printed OK" % what)
                if rc == 0 and ncodes:
                    bad.append("`%s`: exit status 0 with %d coded diagnostic(s) on stderr" % (what, ncodes))
                if rc != 0 and ncodes == 0:
                    bad.append("`%s`: exit status %s without any coded diagnostic on stderr" % (what, rc))
                if "exit" in r and (rc == 0) != (r["exit"] == 0):
                    bad.append("`%s`: exit status %s, expected %s" % (what, rc, "0" if r["exit"] == 0 else "non-zero"))
                if "same_as" in r:
                    o = runs[r["same_as"]]
                    if (o["exit"] == 0) != (rc == 0) or o["codes"] != runs[-1]["codes"]:
                        bad.append("`%s`: verdict %s %s differs from `%s`: %s %s" % (what, rc, runs[-1]["codes"], " ".join(o["args"]), o["exit"], o["codes"]))
            obs = {"runs": runs}
        elif kind == "lsp_protocol":
            frames, status, err, sent = lsp_protocol_session(binp, c["steps"], d)
            answers = [m.get("id") for m in frames if "id" in m and "method" not in m]
            obs = {"responses": answers, "requests": sent, "exit_status": status, "error": err,
                   "notifications": [m.get("method") for m in frames if "id" not in m][:20]}
            if err:
                bad.append(err)
            for r in sent:
                if answers.count(r) != 1:
                    bad.append("request %s answered %d times" % (r, answers.count(r)))
            for a in answers:
                if a not in sent:
                    bad.append("a response with id %s answers no request" % a)
            for m in frames:
                if "id" in m and "method" not in m and "result" not in m and "error" not in m:
                    bad.append("response %s carries neither result nor error" % m.get("id"))
            if status != 0:
                bad.append("exit status %s after shutdown and exit, expected 0" % status)
            for idx in c.get("expect_error", []):
                m = [m for m in frames if m.get("id") == 101 + idx and "method" not in m]
                if m and "error" not in m[0]:
                    bad.append("request %d (unimplemented method) was answered with a result, expected an error" % (101 + idx))
        elif kind == "encodings":
            # C14: the same text stored in several encodings -> the same verdict, codes and positions (check and tokenize)
            text = c["text"]
            if "repeat" in c:   # {"marker": "@@", "unit": "é", "count": 900}: a long run of multi-byte characters
                text = text.replace(c["repeat"]["marker"], c["repeat"]["unit"] * c["repeat"]["count"])
            encs = {"utf-8": lambda t: t.encode("utf-8"), "utf-8-bom": lambda t: b"\xef\xbb\xbf" + t.encode("utf-8"),
                    "utf-16le-bom": lambda t: b"\xff\xfe" + t.encode("utf-16-le"), "utf-16be-bom": lambda t: b"\xfe\xff" + t.encode("utf-16-be"),
                    "cp1252": lambda t: t.encode("cp1252")}
            seen = {}
            for en in c.get("encodings", list(encs)):
                sub = os.path.join(d, en.replace("-", "_"))
                os.makedirs(sub, exist_ok=True)
                open(os.path.join(sub, "f.st"), "wb").write(encs[en](text))
                res = {}
                for cmd in ("check", "tokenize", "echo"):
                    rc, so, se = run(binp, [cmd, "f.st"], sub)
                    if cmd == "echo":
                        so = ""     # the rendered program is not compared here (C10); status, codes and positions are
                    plain = ANSI.sub("", so + se)
                    if rc not in (0, 1):
                        bad.append("%s of the %s file: crash/abnormal exit %s" % (cmd, en, rc))
                    res[cmd] = {"exit": rc, "codes": codes_of(plain), "positions": re.findall(r"f\.st:(\d+):(\d+)", plain)[:40],
                                "token_positions": hashlib.sha256(" ".join(re.findall(r"Ln \d+,Col \d+", plain)).encode()).hexdigest()[:12] if cmd == "tokenize" else None,
                                "n_tokens": len(re.findall(r"Ln \d+,Col \d+", plain)) if cmd == "tokenize" else None}
                seen[en] = res
            ref_en = list(seen)[0]
            for en in seen:
                if seen[en] != seen[ref_en]:
                    bad.append("the %s file gives %s, the %s file gives %s" % (en, seen[en], ref_en, seen[ref_en]))
            if "expect_exit" in c and (seen[ref_en]["check"]["exit"] == 0) != (c["expect_exit"] == 0):
                bad.append("check exit %s, expected %s" % (seen[ref_en]["check"]["exit"], c["expect_exit"]))
            for pos in c.get("expect_positions", []):
                if list(map(str, pos)) not in [list(x) for x in seen[ref_en]["check"]["positions"]]:
                    bad.append("expected a diagnostic at %s, got %s" % (pos, seen[ref_en]["check"]["positions"]))
            obs = {"per_encoding": seen}
        elif kind == "check":
            rc, so, se = run(binp, ["check"] + names, d, timeout=c.get("timeout", 60))
            cs = codes_of(so + se)
            obs = {"exit": rc, "codes": cs, "ok_line": "OK" in so.split()}
            if rc not in (0, 1):
                bad.append("crash/abnormal exit %s" % rc)
            if c.get("expect") == "accept" and rc != 0:
                bad.append("expected acceptance, got exit %s codes %s" % (rc, cs))
            if c.get("expect") == "reject" and rc == 0:
                bad.append("expected rejection, check printed OK")
            for code in c.get("must_have", []):
                if code not in cs:
                    bad.append("expected code %s, got %s" % (code, cs))
            for code in c.get("must_not_have", []):
                if code in cs:
                    bad.append("unexpected code %s" % code)
            if "output_contains" in c or "output_not_contains" in c:
                # the rendered diagnostics (terminal colour codes removed, white space normalised)
                plain = re.sub(r"\s+", " ", re.sub(r"\x1b\[[0-9;]*m", "", so + se))
                obs["output"] = plain[:1500]
                for frag in c.get("output_contains", []):
                    if frag not in plain:
                        bad.append("expected the rendered diagnostics to contain %r" % frag)
                for frag in c.get("output_not_contains", []):
                    if frag in plain:
                        bad.append("rendered diagnostics contain %r" % frag)
        elif kind == "echo":
            rc, so, se = run(binp, ["echo"] + names, d)
            norm = re.sub(r"\s+", " ", so)
            obs = {"exit": rc, "stdout": norm[:1500], "codes": codes_of(so + se)}
            if rc not in (0, 1):
                bad.append("crash/abnormal exit %s" % rc)
            if c.get("expect") == "reject":
                if rc == 0:
                    bad.append("expected the literal to be rejected, echo succeeded: %s" % norm[:200])
            else:
                if rc != 0:
                    bad.append("expected echo to succeed, exit %s" % rc)
                for frag in c.get("expect_contains", []):
                    if re.sub(r"\s+", " ", frag) not in norm:
                        bad.append("expected output to contain %r" % frag)
                for frag in c.get("expect_not_contains", []):
                    if re.sub(r"\s+", " ", frag) in norm:
                        bad.append("output contains %r" % frag)
        elif kind == "tokens":
            rc, so, se = run(binp, ["tokenize"] + names, d)
            toks = re.findall(r"Type: (\w+), Value: '((?:[^'\\]|\\.|'(?!, At))*)', At: Ln (\d+),Col (\d+)", so)
            obs = {"exit": rc, "tokens": [[t[0], t[1], int(t[2]), int(t[3])] for t in toks][:80]}
            if rc not in (0, 1):
                bad.append("crash/abnormal exit %s" % rc)
            for (text, line, col) in c.get("expect_positions", []):
                hit = [t for t in toks if t[1] == text]
                if not hit:
                    bad.append("token %r not found" % text)
                elif not any(int(t[2]) == line and int(t[3]) == col for t in hit):
                    bad.append("token %r expected at Ln %d,Col %d, got %s" % (text, line, col, [(int(t[2]), int(t[3])) for t in hit]))
            if "expect_types" in c:
                got = [t[0] for t in toks if t[0] not in ("Whitespace", "Newline")]
                if got != c["expect_types"]:
                    bad.append("token types %s, expected %s" % (got, c["expect_types"]))
        elif kind == "graphs":
            # every directed graph on up to c["nodes"] nodes (self loops included), realised as function-block instance
            # graph or as structure-member graph; `check` must report P0010 exactly for the graphs with a cycle
            n = c["nodes"]
            names = ["N%d" % i for i in range(n)]
            pairs = [(a, b) for a in range(n) for b in range(n)]
            total = 0
            wrong = []
            for mask in range(1 << len(pairs)):
                edges = [pairs[i] for i in range(len(pairs)) if mask >> i & 1]
                adj = {a: [b for (x, b) in edges if x == a] for a in range(n)}
                # cycle detection
                color = {}
                def dfs(u):
                    color[u] = 1
                    for v in adj[u]:
                        if color.get(v) == 1 or (v not in color and dfs(v)):
                            return True
                    color[u] = 2
                    return False
                cyclic = any(dfs(u) for u in range(n) if u not in color)
                # how one reference is written: plain, with a structure-style initializer, or as array element type
                ref = {"": "%s", "_init": "%s := (x := TRUE)", "_array": "ARRAY[1..2] OF %s"}[
                    c["realise"].replace("fb", "").replace("struct", "")]
                if c["realise"].startswith("fb"):
                    text = "".join("FUNCTION_BLOCK %s\nVAR\n%s x : BOOL;\nEND_VAR\nEND_FUNCTION_BLOCK\n" % (
                        names[a], "".join(" i%d : %s;\n" % (k, ref % names[b]) for k, b in enumerate(adj[a]))) for a in range(n))
                else:
                    text = "TYPE\n" + "".join(" %s : STRUCT\n%s  x : BOOL;\n END_STRUCT;\n" % (
                        names[a], "".join("  m%d : %s;\n" % (k, ref % names[b]) for k, b in enumerate(adj[a]))) for a in range(n)) + "END_TYPE\n"
                path = os.path.join(d, "g.st")
                open(path, "w").write(text)
                rc, so, se = run(binp, ["check", "g.st"], d)
                got = "P0010" in codes_of(so + se)
                total += 1
                if rc not in (0, 1):
                    wrong.append({"edges": edges, "problem": "crash exit %s" % rc, "source": text})
                elif got != cyclic:
                    wrong.append({"edges": edges, "cyclic": cyclic, "reported_P0010": got, "exit": rc, "source": text})
                if len(wrong) >= 3:
                    break
            obs = {"graphs_checked": total, "wrong": wrong}
            if wrong:
                bad.append("%d graph(s) misjudged, first: edges %s cyclic=%s reported=%s" % (len(wrong), wrong[0]["edges"], wrong[0].get("cyclic"), wrong[0].get("reported_P0010")))
        elif kind == "lsp":
            steps = c["steps"]
            out = lsp_session(binp, steps, d)
            obs = {"session": out}
            crashed = [o for o in out if "server_exit" in o or "error" in o]
            out = [o for o in out if "server_exit" not in o]
            if crashed:
                bad.append("language server died: %s" % crashed)
            elif any(("publish" in o and o["publish"] is None) for o in out):
                # no answer within the time limit while the server is alive: inconclusive, never counted as reproduced
                obs["inconclusive"] = "timeout waiting for the server"
                obs["mismatches"] = []
                return False, obs
            for idx, exp in (c.get("expect") or {}).items():
                i = int(idx)
                if i >= len(out):
                    bad.append("no observation for step %d (server died?)" % i)
                    continue
                o = out[i]
                if "diags" in exp:
                    got = None if o.get("publish") is None else [x[:len(exp["diags"][0])] if exp["diags"] else x for x in o["publish"]["diags"]]
                    if o.get("publish") is None or sorted(got) != sorted(exp["diags"]):
                        bad.append("step %d: published %s, expected %s" % (i, got, exp["diags"]))
                if "version" in exp and (o.get("publish") or {}).get("version") != exp["version"]:
                    bad.append("step %d: version %s expected %s" % (i, (o.get("publish") or {}).get("version"), exp["version"]))
                if "tokens_abs" in exp:
                    got = None if o.get("tokens") is None else decode_tokens(o["tokens"])
                    if got != exp["tokens_abs"]:
                        bad.append("step %d: decoded tokens %s expected %s" % (i, got, exp["tokens_abs"]))
                if exp.get("tokens_null") and o.get("tokens") is not None:
                    bad.append("step %d: expected null token result" % i)
        if kind == "lsp":
            for i in c.get("expect_nonempty", []):
                if i >= len(obs["session"]) or not (obs["session"][i].get("publish") or {}).get("diags"):
                    bad.append("step %d: expected at least one diagnostic" % i)
        obs["mismatches"] = bad
        return bool(bad), obs


def load_candidates():
    res = []
    for p in sorted(glob.glob(os.path.join(VERIF, "specs", "witness", "*.json"))):
        for c in json.load(open(p)):
            c["_file"] = os.path.basename(p)
            res.append(c)
    return res


def find(pid, failure):
    """Try the candidates attached to the failed function; return the first that reproduces (or None)."""
    item = failure.get("item") or ""
    cands = [c for c in load_candidates() if re.search(c["for"], item) and (not c.get("property") or pid in c["property"])]
    for c in cands:
        rep, obs = run_candidate(c)
        if rep:
            return {"candidate": {k: v for k, v in c.items() if not k.startswith("_")}, "observation": obs,
                    "how": "ironplcc built from /repo working tree (cargo build --offline, target /verif/out/target)"}
    return None


def replay_file(path):
    rec = json.load(open(path))
    w = rec.get("witness")
    if not w:
        print("replay file has no concrete input (no-failing-input-found); obligation: %s" % rec.get("obligation"))
        print(rec.get("verifier_output", ""))
        return 2
    rep, obs = run_candidate(w["candidate"])
    print(json.dumps(obs, indent=1)[:3000])
    if rep:
        print("REPRODUCED on the real code: %s" % "; ".join(obs["mismatches"]))
        return 1
    print("not reproduced on the current tree")
    return 0


if __name__ == "__main__" and "--regolden" in sys.argv:
    regolden()
    sys.exit(0)
if __name__ == "__main__":
    # self-test: run every candidate on the current tree and report those that 'reproduce' (must be none on a good tree)
    bad = 0
    for c in load_candidates():
        rep, obs = run_candidate(c)
        print(("REPRODUCES " if rep else "ok         ") + c["_file"] + " :: " + c.get("name", c["for"]) + ("  " + "; ".join(obs.get("mismatches", [])) if rep else ""))
        bad += rep
    sys.exit(1 if bad else 0)
