#!/usr/bin/env python3
"""Mutation testing of the BOUNDED stand-ins for the generated parser (development aid, not a registered check).

The peg patterns are macro input: no contract sees them, only the bounded stand-ins (tools/bounded.py) and the golden
baselines do. This script mutates the patterns in a scratch worktree (drops one trivia `_`, swaps one token of a
pattern for another token kind), rebuilds `ironplcc` there and asks: would the stand-ins notice? A surviving mutant that
changes the language points at a construct the corpus (specs/corpus) does not exercise.

usage: python3 tools/mutate_grammar.py [--n 40] [--seed 1]
"""
import json
import os
import random
import re
import subprocess
import sys
import tempfile

HERE = os.path.dirname(os.path.abspath(__file__))
VERIF = os.path.dirname(HERE)
sys.path.insert(0, HERE)
WT = "/tmp/seed/gm"
TGT = "/tmp/seed/gm_target"


def sh(cmd, **kw):
    return subprocess.run(cmd, shell=True, stdout=subprocess.PIPE, stderr=subprocess.STDOUT, text=True, **kw)


def build():
    p = sh("cd %s/compiler && CARGO_TARGET_DIR=%s cargo build --offline -q --bin ironplcc" % (WT, TGT))
    return p.returncode == 0, p.stdout[-400:]


def main():
    import argparse
    ap = argparse.ArgumentParser()
    ap.add_argument("--n", type=int, default=40)
    ap.add_argument("--seed", type=int, default=1)
    a = ap.parse_args()
    random.seed(a.seed)
    if not os.path.exists(WT):
        sh("git -C /repo worktree add --detach %s HEAD" % WT)
    sh("git -C %s checkout -- ." % WT)
    ok, log = build()
    if not ok:
        print("baseline build failed", log)
        return 2
    import bounded
    import witness
    binp = os.path.join(TGT, "debug", "ironplcc")
    path = os.path.join(WT, "compiler", "parser", "src", "parser.rs")
    src = open(path, encoding="utf-8").read()
    lines = src.split("\n")
    sites = []
    toks = sorted(set(re.findall(r"TokenType::(\w+)", src)))
    for i, l in enumerate(lines):
        if not re.match(r"\s*(pub\s+)?rule\s+\w+", l) and " / " not in l and not l.strip().startswith("/"):
            continue
        if "precedence!" in l:
            continue
        pat = l.split("{")[0] if "{" in l else l
        for m in re.finditer(r"(?<![\w:]) _ ", pat):
            sites.append((i, "drop `_` at col %d" % m.start(), l[:m.start()] + " " + l[m.end():]))
        for m in re.finditer(r"tok\(TokenType::(\w+)\)", pat):
            other = random.choice([t for t in toks if t != m.group(1)])
            sites.append((i, "token %s -> %s" % (m.group(1), other), l[:m.start(1)] + other + l[m.end(1):]))
    random.shuffle(sites)
    res = []
    for (i, desc, new) in sites[:a.n]:
        mutated = list(lines)
        mutated[i] = new
        open(path, "w", encoding="utf-8").write("\n".join(mutated))
        ok, log = build()
        if not ok:
            res.append(("uncompilable", i + 1, desc))
            continue
        fails = []
        r1 = bounded.precedence(binp)
        if r1["failures"]:
            fails.append("precedence")
        r2 = bounded.layout_case(binp)
        if r2["failures"]:
            fails.append("layout_case: %s | %s" % (r2["failures"][0]["program"], r2["failures"][0]["transformation"]))
        # golden baselines (echo and check) over the corpus
        gold = 0
        with tempfile.TemporaryDirectory(prefix="verif_g_") as d:
            for name, text in bounded.corpus():
                for cmd in ("echo", "check"):
                    gp = os.path.join(VERIF, "specs", "golden", cmd, name.replace("/", "__") + ".txt")
                    if not os.path.exists(gp):
                        continue
                    open(os.path.join(d, "f.st"), "w", encoding="utf-8", newline="").write(text)
                    if witness.golden_observation(binp, cmd, d) != open(gp, encoding="utf-8").read():
                        gold += 1
        if gold:
            fails.append("golden: %d outputs differ" % gold)
        res.append(("killed" if fails else "SURVIVED", i + 1, desc + ("  [" + "; ".join(fails) + "]" if fails else ""), lines[i].strip()[:100]))
        print(res[-1], flush=True)
    open(path, "w", encoding="utf-8").write(src)
    from collections import Counter
    print(Counter(r[0] for r in res))
    return 0


if __name__ == "__main__":
    sys.exit(main())
