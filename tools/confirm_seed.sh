#!/bin/sh
# confirm_seed.sh <worktree> <seed-id> : re-checks a seeded change independently and stores it under /verif/seeded/<seed-id>
# 1 demo fails with the change, 2 test suite passes with the change, 3 demo passes without it
WT="$1"; ID="$2"; OUT=/verif/seeded/$ID
set -u
cd "$WT" || exit 2
[ -f patch.diff ] || git diff -- compiler > patch.diff
# the saved patch must be exactly the uncommitted source change of the worktree
git diff -- compiler | diff -q - patch.diff >/dev/null || { echo "WARNING: patch.diff differs from the worktree's uncommitted change" ; }
mkdir -p "$OUT"
LOG="$OUT/confirm.log"; : > "$LOG"
echo "== demo WITH change" >> "$LOG"
bash ./demo.sh >> "$LOG" 2>&1; WITH=$?
echo "exit=$WITH" >> "$LOG"
echo "== test suite WITH change" >> "$LOG"
(cd compiler && cargo test --workspace --offline 2>&1 | grep -E "^test result|FAILED|panicked" ) >> "$LOG" 2>&1
if grep -q "FAILED\|test result: FAILED" "$LOG"; then TESTS=1; else TESTS=0; fi
echo "tests_failed=$TESTS" >> "$LOG"
# (no `git stash`: the stash is shared by all worktrees of a repository and races with agents working in other worktrees)
git apply -R patch.diff || { echo "patch.diff does not match the working tree" | tee -a "$LOG"; exit 2; }
echo "== demo WITHOUT change" >> "$LOG"
bash ./demo.sh >> "$LOG" 2>&1; WITHOUT=$?
echo "exit=$WITHOUT" >> "$LOG"
git apply patch.diff
cp patch.diff "$OUT/patch.diff"
cp demo.sh "$OUT/" 2>/dev/null
[ -d demo ] && cp -r demo "$OUT/"
echo "RESULT with=$WITH tests_failed=$TESTS without=$WITHOUT" | tee -a "$LOG"
