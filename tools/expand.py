#!/usr/bin/env python3
"""Macro expansion of a crate of /repo's CURRENT working tree by the compiler that builds it.

`derive(Recurse)` (dsl_macro_derive) and the `dispatch!/leaf!` macros of dsl/src/visitor.rs generate the traversal
code every analyzer rule runs on. That generated code is not in any source file, so the extractor cannot copy it from
one; instead the crate is expanded on every run with

    RUSTC_BOOTSTRAP=1 cargo rustc --offline -p <crate> --lib -- -Zunpretty=expanded

(the repository's own toolchain; RUSTC_BOOTSTRAP only unlocks the -Z flag) and the text of the generated functions is
taken from the compiler's output. The target directory is /verif/out/target_expand; nothing is cached across source
changes except cargo's own incremental state.
"""
import hashlib
import os
import subprocess

HERE = os.path.dirname(os.path.abspath(__file__))
VERIF = os.path.dirname(HERE)
REPO = os.environ.get("VERIF_REPO", "/repo")
_cache = {}


class ExpandError(Exception):
    pass


def expanded(crate="ironplc-dsl"):
    """Returns the expanded source text of the crate's lib target."""
    key = (REPO, crate)
    if key in _cache:
        return _cache[key]
    tgt = os.path.join(VERIF, "out", "target_expand_" + hashlib.sha256(REPO.encode()).hexdigest()[:8])
    env = dict(os.environ, RUSTC_BOOTSTRAP="1", CARGO_TARGET_DIR=tgt, CARGO_NET_OFFLINE="true")
    p = subprocess.run(["cargo", "rustc", "--offline", "-q", "-p", crate, "--lib", "--", "-Zunpretty=expanded"],
                       cwd=os.path.join(REPO, "compiler"), env=env, stdout=subprocess.PIPE, stderr=subprocess.PIPE, text=True)
    if p.returncode != 0 or "recurse_visit" not in p.stdout:
        raise ExpandError("macro expansion of %s failed: %s" % (crate, p.stderr[-1500:]))
    _cache[key] = p.stdout
    return p.stdout


if __name__ == "__main__":
    import sys
    t = expanded(sys.argv[1] if len(sys.argv) > 1 else "ironplc-dsl")
    sys.stdout.write(t)
