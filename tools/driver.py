#!/usr/bin/env python3
"""check driver: ./check <PROPERTY> [--tier quick|thorough] [--replay FILE]

For the property: regenerate every unit that serves it from /repo's current
working tree, run Verus on each (plus the vacuity variant), classify failed
obligations, look for a concrete failing input for each failed obligation
(Kani harness / witness candidates replayed on the real code), write
evidence/<ID>.json and print the verdict.

exit 0: every obligation discharged (known findings printed as KNOWN-FINDING)
exit 1: VIOLATION line(s) printed
exit 2: undecided (lost anchor, verifier rejected the text, resource limit,
        failed proof scaffolding without a reproduced input, vacuous contract)
"""
import concurrent.futures as cf
import glob
import hashlib
import json
import os
import re
import subprocess
import sys
import time

HERE = os.path.dirname(os.path.abspath(__file__))
VERIF = os.path.dirname(HERE)
sys.path.insert(0, HERE)
import gen  # noqa: E402
from rustsrc import AnchorLost  # noqa: E402

OUT = os.path.join(VERIF, "out")
REPO_DIR = os.environ.get("VERIF_REPO", "/repo")
GEN = os.path.join(OUT, "gen")
REPLAY = os.path.join(OUT, "replay")
UNITS_DIR = os.path.join(VERIF, "specs", "units")

ALL_PROPS = ["C%02d" % i for i in range(1, 16)]

# Verus messages that are verification failures (everything else at level error = the text was rejected)
VERIF_MSGS = [
    (re.compile(r"^postcondition not satisfied"), "post"),
    (re.compile(r"^precondition not satisfied"), "pre"),
    (re.compile(r"^possible arithmetic underflow/overflow"), "overflow"),
    (re.compile(r"^possible division by zero"), "divzero"),
    (re.compile(r"^assertion failed"), "assert"),
    (re.compile(r"^assertion not satisfied"), "assert"),
    (re.compile(r"^invariant not satisfied"), "invariant"),
    (re.compile(r"^loop invariant not"), "invariant"),
    (re.compile(r"^decreases not satisfied"), "decreases"),
    (re.compile(r"^could not prove termination"), "decreases"),
    (re.compile(r"^possible bit shift underflow/overflow"), "overflow"),
    (re.compile(r"^index out of bounds"), "pre"),
    (re.compile(r"^constructed value may fail to meet its declared type invariant"), "post"),
    (re.compile(r"^unreachable|^panic|^explicit panic"), "pre"),
    (re.compile(r"^cannot show .* is unreachable|^unable to show .* unreachable"), "pre"),
    (re.compile(r"^possible out-of-range|^value may be out of range"), "overflow"),
]
RLIMIT_MSGS = re.compile(r"resource limit|rlimit|timed out|timeout", re.I)
SAFETY_KINDS = {"pre", "overflow", "divzero", "decreases"}
SCAFFOLD_KINDS = {"assert", "invariant"}


def sh(cmd, **kw):
    return subprocess.run(cmd, stdout=subprocess.PIPE, stderr=subprocess.PIPE, text=True, **kw)


def unit_props(path):
    txt = open(path, encoding="utf-8").read()
    props = set()
    for m in re.finditer(r"^\s*//@property\s+(.*)$", txt, re.M):
        props.update(m.group(1).split())
    for m in re.finditer(r"\bprops=([\w,]+)", txt):
        props.update(m.group(1).split(","))
    # includes may carry items too; their default props come from the including unit
    return props


def units_for(pid):
    res = []
    for p in sorted(glob.glob(os.path.join(UNITS_DIR, "*.vrs"))):
        pr = unit_props(p)
        if pid in pr or (pid == "C04" and pr):
            res.append(p)
    return res


def parse_verus(stdout, stderr):
    """Return (diags, summary_json_or_None)."""
    diags = []
    for line in (stderr + "\n" + stdout).split("\n"):
        line = line.strip()
        if line.startswith('{"$message_type"'):
            try:
                diags.append(json.loads(line))
            except json.JSONDecodeError:
                pass
    summary = None
    # the --output-json blob is pretty-printed on stdout
    i = stdout.find('{\n  "func-details"')
    if i < 0:
        i = stdout.find("{\n")
    if i >= 0:
        try:
            summary = json.JSONDecoder().raw_decode(stdout[i:])[0]
        except json.JSONDecodeError:
            summary = None
    return diags, summary


def run_verus(path, rlimit=None, seed=None, threads=4):
    cmd = ["verus", path, "--error-format=json", "--output-json", "--time", "--multiple-errors", "10",
           "--num-threads", str(threads), "--no-report-long-running"]
    if rlimit:
        cmd += ["--rlimit", str(rlimit)]
    if seed is not None:
        cmd += ["--smt-option", "smt.random_seed=%d" % seed]
    t0 = time.time()
    p = sh(cmd, cwd=OUT)
    dt = time.time() - t0
    diags, summary = parse_verus(p.stdout, p.stderr)
    return {"cmd": " ".join(cmd), "rc": p.returncode, "diags": diags, "summary": summary, "wall": dt,
            "raw_tail": (p.stderr[-3000:] if summary is None else "")}


def classify(diag):
    msg = diag.get("message", "")
    for rx, kind in VERIF_MSGS:
        if rx.search(msg):
            return kind
    return None


def item_for_line(meta, line):
    for it in meta["items"]:
        gl = it.get("gen_lines")
        if gl and gl[0] <= line <= gl[1]:
            return it
    return None


def analyse(meta, res, genpath):
    """Turn verus diagnostics into failed-obligation records."""
    failures = []   # dicts
    rejected = []   # compile / unsupported errors
    rlimit = []
    gen_lines = open(genpath, encoding="utf-8").read().split("\n")
    base = os.path.basename(genpath)
    for d in res["diags"]:
        if d.get("level") != "error":
            continue
        msg = d.get("message", "")
        if msg.startswith("aborting due to") or "verification results" in msg:
            continue
        kind = classify(d)
        if RLIMIT_MSGS.search(msg):
            rlimit.append(msg)
            continue
        if kind is None:
            rejected.append(msg + " @ " + ",".join("%s:%s" % (s["file_name"], s["line_start"]) for s in d.get("spans", [])[:2]))
            continue
        spans = d.get("spans", [])
        own = [s for s in spans if os.path.basename(s["file_name"]) == base]
        prim = [s for s in own if s.get("is_primary")] or own
        item = None
        # owner: the item whose region contains a span inside its body (call site / expression / end of body)
        for s in sorted(own, key=lambda s: (not s.get("is_primary"),)):
            item = item_for_line(meta, s["line_start"])
            if item:
                break
        clause = ""
        where_line = None
        if prim:
            s = prim[0]
            where_line = s["line_start"]
            clause = " ".join(t["text"][t["highlight_start"] - 1:t["highlight_end"] - 1] if len(s["text"]) == 1 else t["text"].strip() for t in s["text"])
        if kind == "invariant":
            # at a `continue` / `break` the primary span is the jump; the clause is the span labelled "failed this invariant"
            inv = [s for s in own if "failed this invariant" in (s.get("label") or "")]
            if inv and not (prim and prim[0] in inv):
                where_line = inv[0]["line_start"]
                clause = " ".join(t["text"].strip() for t in inv[0]["text"]) + " :: at " + clause
        if kind == "pre":
            # the violated clause is in the secondary span (callee's requires), if it lies in this file
            sec = [s for s in own if not s.get("is_primary")]
            if sec:
                clause = clause + " :: requires " + " ".join(t["text"].strip() for t in sec[0]["text"])
            ext = [s for s in spans if os.path.basename(s["file_name"]) != base]
            if ext:
                clause = clause + " :: " + ext[0]["file_name"] + ":" + str(ext[0]["line_start"])
        clause_n = re.sub(r"\s+", " ", clause).strip()
        h = hashlib.sha256(clause_n.encode()).hexdigest()[:8]
        ident = "%s/%s/%s" % (item["id"] if item else meta["unit"] + "/<prelude>", kind, h)
        failures.append({
            "obligation": ident, "kind": kind, "item": item["id"] if item else None,
            "props": item["props"] if item else [], "message": msg, "clause": clause_n,
            "gen_line": where_line, "src": (item["src"] + ":%d-%d" % tuple(item["src_lines"])) if item else None,
            "havoc": bool(item and item.get("havoc")), "rendered": d.get("rendered", ""),
            "carrying": bool(item and kind == "invariant" and any(
                re.sub(r"[\s,]+", "", c) in re.sub(r"[\s,]+", "", clause_n) or re.sub(r"[\s,]+", "", clause_n) in re.sub(r"[\s,]+", "", c)
                for c in item.get("carrying", []))),
        })
    return failures, rejected, rlimit


def fn_times(summary):
    """function name -> (micros, success) from the Verus JSON."""
    out = {}
    if not summary:
        return out
    try:
        for mod in summary["times-ms"]["smt"]["smt-run-module-times"]:
            for fb in mod.get("function-breakdown", []):
                out[fb["function"]] = (fb.get("time-micros", 0), fb.get("success", True))
    except (KeyError, TypeError):
        pass
    return out


def scan_assumptions(genpath):
    txt = open(genpath, encoding="utf-8").read()
    res = []
    lines = txt.split("\n")
    for i, l in enumerate(lines):
        if "external_body" in l and "verifier" in l:
            # name = next fn / struct line
            for j in range(i + 1, min(i + 6, len(lines))):
                m = re.search(r"\b(fn|struct)\s+(\w+)", lines[j])
                if m:
                    # enclosing impl
                    res.append("external_body %s %s" % (m.group(1), m.group(2)))
                    break
        m = re.search(r"assume_specification\s*(<[^>]*>)?\s*\[([^\]]*)\]", l)
        if m:
            res.append("assume_specification " + m.group(2).strip())
        if re.search(r"\baxiom fn\s+(\w+)", l):
            res.append("axiom " + re.search(r"\baxiom fn\s+(\w+)", l).group(1))
        if re.search(r"\b(assume|admit)\s*\(", l) and not l.strip().startswith("//"):
            res.append("assume/admit at generated line %d: %s" % (i + 1, l.strip()[:80]))
    return sorted(set(res))


ALIASES = {
    "from": [r"\binto\s*\(", r"\bfrom\s*\("], "try_from": [r"\btry_into\s*\(", r"\btry_from\s*\(", r"\btry_into\b"],
    "eq": [r"==", r"!="], "add": [r"\+"], "mul": [r"\*"], "sub": [r"-"], "into": [r"\binto\s*\("],
}


def vac_colouring(items):
    """Partition contracted items into sets such that no item of a set mentions
    (may call) another item of the same set: adding `ensures false` to a callee would
    make its callers verify vacuously, so callers and callees are tested in different files."""
    its = [it for it in items if not it["trusted"]]

    def mentions(a, b):
        if a is b:
            return False
        pats = ALIASES.get(b["name"], []) + [r"\b" + re.escape(b["name"]) + r"\b"]
        return any(re.search(p, a["body_text"]) for p in pats)

    colours = []
    for it in its:
        placed = False
        for col in colours:
            if not any(mentions(it, o) or mentions(o, it) for o in col):
                col.append(it)
                placed = True
                break
        if not placed:
            colours.append([it])
    return [[it["id"] for it in col] for col in colours]


def process_unit(path, tier, seed):
    unit = os.path.splitext(os.path.basename(path))[0]
    rec = {"unit": unit, "status": "ok", "failures": [], "rejected": [], "rlimit": [], "items": [], "wall": 0.0,
           "vacuous": [], "notes": [], "dropped": [], "assumptions": [], "cmd": "", "verified": 0, "times": {}}
    t0 = time.time()
    genpath = os.path.join(GEN, unit + ".rs")
    try:
        meta = gen.generate(path, genpath, vacuity=False)
        colours = vac_colouring(meta["items"])
        vruns = []
        for ci, col in enumerate(colours):
            vp = os.path.join(GEN, "%s_vac%d.rs" % (unit, ci))
            vruns.append((vp, gen.generate(path, vp, vacuity=set(col)), set(col)))
    except AnchorLost as e:
        rec["status"] = "anchor-lost"
        rec["detail"] = str(e)
        rec["wall"] = time.time() - t0
        return rec
    rec["items"] = meta["items"]
    rec["notes"] = meta["notes"]
    rec["dropped"] = meta["dropped"]
    rlimit = meta.get("rlimit")
    if tier == "thorough":
        rlimit = max(40, (rlimit or 10) * 2)
    with cf.ThreadPoolExecutor(max_workers=8) as ex:
        f1 = ex.submit(run_verus, genpath, rlimit, None)
        vfs = [ex.submit(run_verus, vp, rlimit, None) for vp, _, _ in vruns]
        res = f1.result()
        vress = [f.result() for f in vfs]
    rec["cmd"] = res["cmd"]
    failures, rejected, rl = analyse(meta, res, genpath)
    rec["failures"] = failures
    rec["rejected"] = rejected
    rec["rlimit"] = rl
    if res["summary"] is None:
        rec["status"] = "verifier-error"
        rec["detail"] = res["raw_tail"]
    else:
        vr = res["summary"].get("verification-results", {})
        rec["verified"] = vr.get("verified", 0)
        if vr.get("encountered-vir-error") or (vr.get("encountered-error") and not failures and not rl):
            rec["status"] = "rejected"
        rec["times"] = fn_times(res["summary"])
    if rejected:
        rec["status"] = "rejected"
    elif rl:
        rec["status"] = "rlimit"
    # vacuity: every contracted, non-trusted item must FAIL `ensures false`
    for (vp, vmeta, col), vres in zip(vruns, vress):
        vfail, vrej, vrl = analyse(vmeta, vres, vp)
        failed_items = {f["item"] for f in vfail if f["kind"] == "post"}
        if vrej and rec["status"] == "ok":
            rec["status"] = "rejected"
            rec["rejected"] = ["[vacuity variant] " + r for r in vrej]
        for it in vmeta["items"]:
            if it["trusted"] or it["id"] not in col:
                continue
            if it["id"] not in failed_items:
                rec["vacuous"].append(it["id"])
    rec["vacuity_files"] = len(vruns)
    if rec["vacuous"] and rec["status"] == "ok":
        rec["status"] = "vacuous"
    rec["assumptions"] = scan_assumptions(genpath)
    if tier == "thorough" and rec["status"] == "ok":
        # stability: second seed; differences are warnings only
        r2 = run_verus(genpath, rlimit, (seed or 0) % 1000 + 7)
        f2, _, rl2 = analyse(meta, r2, genpath)
        if len(f2) != len(failures) or rl2:
            rec["notes"].append("UNSTABLE: second solver seed gave %d failures / %d rlimit" % (len(f2), len(rl2)))
    rec["wall"] = time.time() - t0
    return rec


_VE = None


def verified_elsewhere():
    """suffixes (item id without unit) of all items whose body is verified in some unit"""
    global _VE
    if _VE is None:
        _VE = set()
        for p in sorted(glob.glob(os.path.join(UNITS_DIR, "*.vrs"))):
            unit = os.path.splitext(os.path.basename(p))[0]
            try:
                meta = gen.generate(p, os.path.join(GEN, "_scan_%s.rs" % unit), vacuity=False)
            except AnchorLost:
                continue
            for it in meta["items"]:
                if not it["trusted"]:
                    _VE.add(it["id"].split("/", 1)[1])
    return _VE


KANI_HARNESSES = ["duration_new_nonneg", "duration_checked_add_nonneg", "time_from_hms_nano", "month_try_from",
                  "date_from_calendar_date", "i128_try_from_u128"]


def run_kani():
    """Thorough tier: validate the ASSUMED contracts of the `time` stand-ins and of i128::try_from(u128) against the
    real crates with Kani (loop-free harnesses over the full input domain; no unwinding bound)."""
    import shutil
    kd = os.path.join(VERIF, "kani")
    lock = os.path.join(REPO_DIR, "compiler", "Cargo.lock")
    if os.path.exists(lock):
        shutil.copy(lock, os.path.join(kd, "Cargo.lock"))
    env = dict(os.environ, CARGO_NET_OFFLINE="true", CARGO_TARGET_DIR=os.path.join(OUT, "target_kani"))

    def one(h):
        t0 = time.time()
        try:
            p = subprocess.run(["cargo", "kani", "--harness", h], cwd=kd, env=env, stdout=subprocess.PIPE, stderr=subprocess.STDOUT, text=True, timeout=900)
            ok = "VERIFICATION:- SUCCESSFUL" in p.stdout
            st = "successful" if ok else ("failed" if "VERIFICATION:- FAILED" in p.stdout else "error")
        except subprocess.TimeoutExpired:
            st = "timeout"
        return {"harness": h, "status": st, "wall_s": round(time.time() - t0, 1)}
    # first one alone (builds the crate), the rest in parallel
    res = [one(KANI_HARNESSES[0])]
    with cf.ThreadPoolExecutor(max_workers=5) as ex:
        res += list(ex.map(one, KANI_HARNESSES[1:]))
    return res


def load_known():
    p = os.path.join(VERIF, "known_findings.json")
    if not os.path.exists(p):
        return []
    return json.load(open(p))


def obligations_of(item):
    c = item["clauses"]
    return len(c["ensures"]) + len(c["invariant"]) + len(c["decreases"]) + 1


def main(argv):
    import argparse
    ap = argparse.ArgumentParser()
    ap.add_argument("pid")
    ap.add_argument("--tier", default=os.environ.get("VERIF_TIER", "quick"))
    ap.add_argument("--replay")
    a = ap.parse_args(argv)
    pid = a.pid
    tier = a.tier if a.tier in ("quick", "thorough") else "quick"
    seed = int(os.environ.get("VERIF_SEED", "0") or 0)
    os.makedirs(GEN, exist_ok=True)
    os.makedirs(REPLAY, exist_ok=True)
    os.makedirs(os.path.join(VERIF, "evidence"), exist_ok=True)
    if a.replay:
        import witness
        return witness.replay_file(a.replay)
    t0 = time.time()
    units = units_for(pid)
    if not units:
        print("no unit serves %s" % pid)
        return 2
    recs = []
    with cf.ThreadPoolExecutor(max_workers=8) as ex:
        for rec in ex.map(lambda p: process_unit(p, tier, seed), units):
            recs.append(rec)

    kani_results = []
    if tier == "thorough" and pid in ("C09", "C04"):
        kani_results = run_kani()

    known = [k for k in load_known() if k.get("property") == pid and k.get("status") == "open"]
    known_ids = {k["obligation"] for k in known}

    def relevant(f, it_props):
        if pid == "C04":
            # "no panic, no hang": the implicit safety obligations of every extracted function (overflow, callee
            # preconditions incl. unwrap/expect/index/panic reachability, termination). A failed functional
            # postcondition or invariant belongs to the property it states, not to C04 - unless C04 is the first
            # property of the item (dedicated carriers).
            return f["kind"] in SAFETY_KINDS or bool(it_props and it_props[0] == "C04")
        return pid in it_props

    violations = []
    undecided = []
    knownhits = []
    n_obl = 0
    n_items = 0
    samples = []
    functions = []
    solver_us = 0
    assumptions = set()
    dropped = set()
    notes = set()
    for rec in recs:
        for x in rec["assumptions"]:
            assumptions.add("%s: %s" % (rec["unit"], x))
        dropped.update(rec["dropped"])
        notes.update(rec["notes"])
        if rec["status"] in ("anchor-lost", "verifier-error", "rejected", "rlimit", "vacuous"):
            undecided.append("%s: %s %s" % (rec["unit"], rec["status"], (rec.get("detail") or "; ".join(rec["rejected"] + rec["rlimit"] + rec["vacuous"]))[:600]))
        for it in rec["items"]:
            if it["trusted"]:
                if it.get("elsewhere"):
                    suffix = it["id"].split("/", 1)[1]
                    if suffix in verified_elsewhere():
                        continue
                    undecided.append("%s: contract of %s is used but its body is verified in no unit" % (rec["unit"], suffix))
                assumptions.add("%s: trusted (body not verified) %s" % (rec["unit"], it["id"]))
                continue
            rel = pid in it["props"] or (pid == "C04" and it.get("kind") != "lemma")
            if not rel:
                continue
            n_items += 1
            k = obligations_of(it) if pid in it["props"] else 1
            n_obl += k
            functions.append({"id": it["id"], "src": "%s:%d-%d" % (it["src"], it["src_lines"][0], it["src_lines"][1]),
                              "body_sha": it["body_sha"], "obligations": k, "havoc": len(it["havoc"])})
            if len(samples) < 12 and it["clauses"]["ensures"] and pid in it["props"]:
                samples.append({"function": it["id"], "ensures": it["clauses"]["ensures"][:3], "requires": it["clauses"]["requires"][:3]})
            for h in it.get("rewrites", []):
                assumptions.add("%s: std call rewritten to a specified equivalent in %s: `%s` -> `%s`" % (rec["unit"], it["id"], h["old"][:80].replace("\n", " "), h["new"][:80].replace("\n", " ")))
            for h in it["havoc"]:
                assumptions.add("%s: havoc/rewrite in %s: `%s` -> `%s` (%s)" % (rec["unit"], it["id"], h["old"][:80].replace("\n", " "), h["new"][:80].replace("\n", " "), h["note"]))
        for fn_, (us, ok) in rec["times"].items():
            solver_us += us
        for f in rec["failures"]:
            if not relevant(f, f["props"]):
                continue
            f["unit"] = rec["unit"]
            if f["obligation"] in known_ids:
                knownhits.append(f)
            elif (f["kind"] in SCAFFOLD_KINDS and not f["carrying"]) or f["havoc"] or f["item"] is None:
                f["needs_witness"] = True
                violations.append(f)
            else:
                violations.append(f)

    # witness search for failed obligations
    real_violations = []
    if violations:
        try:
            import witness
        except ImportError:
            witness = None
        for n, f in enumerate(violations):
            w = witness.find(pid, f) if witness else None
            rp = os.path.join(REPLAY, "%s-%d.json" % (pid, n))
            f["witness"] = w
            json.dump({"property": pid, "obligation": f["obligation"], "kind": f["kind"], "function": f["item"],
                       "source": f["src"], "clause": f["clause"], "verifier": "verus", "verifier_message": f["message"],
                       "verifier_output": f["rendered"], "witness": w,
                       "note": "no-failing-input-found" if not w else "replay with ./check %s --replay %s" % (pid, rp)},
                      open(rp, "w"), indent=1)
            f["replay"] = rp
            if f.get("needs_witness") and not w:
                undecided.append("%s: proof scaffolding / abstracted function failed without a reproduced input: %s" % (f["unit"], f["obligation"]))
            else:
                real_violations.append(f)

    # units whose text could not be re-verified (lost anchor / rejected by the verifier): the proof is gone, so
    # fall back to the attached concrete inputs; a reproduced failure on the real code is a violation with its input
    for rec in recs:
        if rec["status"] in ("anchor-lost", "rejected", "verifier-error", "rlimit"):
            try:
                import witness
            except ImportError:
                break
            for c in witness.load_candidates():
                if c.get("property") and pid not in c["property"]:
                    continue
                # the candidate is attached to this unit if one of the alternatives of its `for` pattern starts with "<unit>/"
                if not re.search(r"(^|[|(])" + re.escape(rec["unit"]) + "/", c["for"]):
                    continue
                rep, obs = witness.run_candidate(c)
                if rep:
                    n = len(real_violations)
                    rp = os.path.join(REPLAY, "%s-u%d.json" % (pid, n))
                    f = {"obligation": "%s/<unit not re-verifiable: %s>" % (rec["unit"], rec["status"]), "kind": "unverifiable+witness",
                         "item": None, "src": None, "clause": (rec.get("detail") or "; ".join(rec["rejected"]))[:300], "unit": rec["unit"],
                         "message": "the unit could not be re-verified and a concrete input fails on the real code",
                         "witness": {"candidate": {k: v for k, v in c.items() if not k.startswith("_")}, "observation": obs,
                                     "how": "ironplcc built from /repo working tree"}, "replay": rp}
                    json.dump({"property": pid, "obligation": f["obligation"], "kind": f["kind"], "function": None, "source": None,
                               "clause": f["clause"], "verifier": "verus", "verifier_message": f["message"], "verifier_output": rec.get("detail", ""),
                               "witness": f["witness"], "note": "replay with ./check %s --replay %s" % (pid, rp)}, open(rp, "w"), indent=1)
                    real_violations.append(f)
                    break

    # bounded stand-ins for functions outside the verifier's reach (the generated parser): never counted as proved
    bounded_results = []
    try:
        import bounded
        import witness as _w
    except ImportError:
        bounded = None
    if bounded and pid in bounded.CHECKS:
        binp, blog = _w.build_ironplcc()
        if not binp:
            undecided.append("bounded stand-ins: could not build ironplcc: %s" % blog[-300:])
        else:
            for fn in bounded.CHECKS[pid]:
                r = fn(binp)
                bounded_results.append({"name": r["name"], "bound": r["bound"], "evaluations": r["evaluations"], "failures": len(r["failures"]),
                                        "level": "bounded (not a proof; not counted among the obligations)"})
                for bf in r["failures"][:5]:
                    n = len(real_violations)
                    rp = os.path.join(REPLAY, "%s-b%d.json" % (pid, n))
                    if r["name"] == "precedence":
                        cand = {"for": "bounded", "kind": "echo", "name": "precedence of `%s`" % bf.get("statement", ""), "files": {"prec.st": bf["input"]},
                                "expect_contains": [bf["expected"]] if bf.get("expected") else []}
                        clause = "`%s` must be grouped as `%s`, the parser gives `%s`" % (bf.get("statement"), bf.get("expected"), bf.get("rendered", bf.get("problem")))
                    elif r["name"] == "cli_contract":
                        cand = bf["candidate"]
                        clause = "command-line contract: %s" % "; ".join(bf["problems"])[:300]
                    elif r["name"] == "length_budget":
                        cand = bf["candidate"]
                        # (no sizes, exit codes or times in the clause: the obligation id must not depend on the machine)
                        clause = "an input within 64 KiB and without nesting is not answered: %s: the process aborts (stack overflow) or exceeds the budget" % bf["shape"]
                    elif r["name"] == "nesting_budget":
                        cand = bf["candidate"]
                        clause = "no answer within the time budget / abnormal exit: %s" % "; ".join(bf["problems"])[:300]
                    elif r["name"] == "graph_cycles":
                        cand = bf["candidate"]
                        clause = "recursion <=> P0010 (%s): %s" % (cand.get("name", "")[:80], "; ".join(bf["problems"])[:300])
                    elif r["name"] == "encodings_bytes":
                        cand = bf["candidate"]
                        clause = "encoding transparency (%s): %s" % (cand["name"], "; ".join(bf["problems"])[:300])
                    elif r["name"] == "lsp_interleavings":
                        cand = bf["candidate"]
                        clause = "language server protocol discipline (%s): %s" % (cand["name"], "; ".join(bf["problems"])[:300])
                    elif r["name"] == "lsp_history":
                        cand = bf["candidate"]
                        clause = "diagnostics published after an edit history are not those of `check` on the current text: %s" % "; ".join(bf["problems"])[:300]
                    elif r["name"] == "lsp_tokens_history":
                        cand = {"for": "bounded", "kind": "lsp_tokens_vs_text", "name": "edit history of %d steps" % len(bf["steps"]), "steps": bf["steps"]}
                        clause = "semantic tokens after an edit history are not the highlighted lexemes of the current text: %s" % "; ".join(bf["problems"])[:300]
                    elif r["name"] == "tokens_tile":
                        cand = {"for": "bounded", "kind": "tokens_tile", "name": "%s, %s" % (bf["program"], bf["transformation"]), "files": {"f.st": bf["input"]}}
                        clause = "the tokens of %s (%s) do not tile the text / are reported at another line or column: %s" % (bf["program"], bf["transformation"], "; ".join(bf["problems"])[:200])
                    else:
                        cand = {"for": "bounded", "kind": "bounded_pair", "name": "%s, %s" % (bf["program"], bf["transformation"]),
                                "original_text": bf["original_text"], "transformed_text": bf["input"], "fold_case": bf["fold_case"]}
                        clause = "%s under the transformation `%s` no longer parses to the same library / gets another verdict" % (bf["program"], bf["transformation"])
                    f = {"obligation": "bounded/%s/%s" % (r["name"], hashlib.sha256(clause.encode()).hexdigest()[:8]), "kind": "bounded-stand-in", "item": None, "src": {"tokens_tile": "parser/src/token.rs (logos) + parser/src/lexer.rs", "lsp_tokens_history": "plc2x/src/lsp.rs + lsp_project.rs (server loop, lsp_server crate)", "lsp_history": "plc2x/src/lsp.rs + lsp_project.rs + project.rs (server loop, lsp_server crate)", "cli_contract": "plc2x/src/cli.rs + main.rs (clap, codespan)", "lsp_interleavings": "plc2x/src/lsp.rs (server loop, lsp_server crate)", "encodings_bytes": "plc2x/src/source.rs (encoding_rs) + lexer", "graph_cycles": "analyzer/src/xform_toposort_declarations.rs (petgraph toposort)", "nesting_budget": "parser/src/parser.rs (peg grammar) and the stages after it", "length_budget": "parser/src/parser.rs (peg grammar: recursive descent over left-nested chains) and the recursive traversals after it"}.get(r["name"], "parser/src/parser.rs (peg grammar)"),
                         "clause": clause, "unit": "bounded", "message": "bounded stand-in (%s) failed on the real binary" % r["name"],
                         "witness": {"candidate": cand, "observation": {k: v for k, v in bf.items() if k not in ("input", "original_text", "steps", "candidate")}, "how": "ironplcc built from /repo working tree"}, "replay": rp}
                    json.dump({"property": pid, "obligation": f["obligation"], "kind": f["kind"], "function": {"tokens_tile": "TokenType::lexer (generated by derive(Logos)) + tokenize", "lsp_tokens_history": "ironplcc lsp (whole server) over an edit history", "lsp_history": "ironplcc lsp (whole server) over an edit history", "cli_contract": "ironplcc check / echo / tokenize (whole program)", "lsp_interleavings": "ironplcc lsp (whole server) over a message sequence", "encodings_bytes": "ironplcc check / tokenize on stored bytes", "graph_cycles": "ironplcc check (declaration graph + petgraph::algo::toposort)", "nesting_budget": "ironplcc check / echo (whole program)", "length_budget": "ironplcc check / echo (whole program)"}.get(r["name"], "plc_parser (generated by peg::parser!)"), "source": f["src"],
                               "clause": clause, "verifier": "bounded check of the real binary (tools/bounded.py)", "verifier_message": f["message"], "verifier_output": "",
                               "witness": f["witness"], "note": "replay with ./check %s --replay %s" % (pid, rp)}, open(rp, "w"), indent=1)
                    if f["obligation"] in known_ids:
                        # a genuine defect recorded as an open known finding: reported as such, not as a violation
                        knownhits.append(dict(f, bounded=True))
                        bounded_results[-1]["open_known_findings"] = bounded_results[-1].get("open_known_findings", 0) + 1
                    else:
                        real_violations.append(f)

    # thorough tier: every attached concrete input whose oracle comes from the property itself (verdicts, exit status / OK /
    # diagnostics agreement, LSP == check, same result in every encoding, cycle <=> P0010, protocol discipline) is also run
    # on the real binary as a bounded stand-in, whatever the verifier said; so are the echo / tokens / lsp inputs, whose
    # expected renderings, positions and decoded tokens were computed from the property (by hand or by the generators
    # tools/gen_*_witnesses.py). Inputs that compare against a stored baseline (golden) stay replay material.
    if True:   # both tiers (the inputs cost milliseconds each; until round 17 this ran in the thorough tier only)
        try:
            import witness as _w2
            binp2, _ = _w2.build_ironplcc()
        except ImportError:
            binp2 = None
        if binp2:
            unit_names = [r["unit"] for r in recs]
            n_run = 0
            n_fail = 0
            for c in _w2.load_candidates():
                if c["kind"] not in ("check", "cli", "lsp_vs_check", "lsp_protocol", "encodings", "graphs", "echo", "tokens", "lsp"):
                    continue
                if c.get("property") and pid not in c["property"]:
                    continue
                if c["kind"] == "graphs" and pid == "C07":
                    continue    # run by the stand-in graph_cycles above
                if not any(re.search(r"(^|[|(])" + re.escape(u) + "/", c["for"]) or re.match(c["for"], u + "/x") for u in unit_names):
                    continue
                rep, obs = _w2.run_candidate(c)
                n_run += 1
                if rep:
                    n_fail += 1
                    n = len(real_violations)
                    rp = os.path.join(REPLAY, "%s-w%d.json" % (pid, n))
                    f = {"obligation": "bounded/witness/%s" % hashlib.sha256(c.get("name", c["for"]).encode()).hexdigest()[:8], "kind": "bounded-stand-in", "item": None,
                         "src": None, "clause": "%s: %s" % (c.get("name", ""), "; ".join(obs.get("mismatches", []))[:300]), "unit": "bounded",
                         "message": "concrete input with an oracle from the property fails on the real binary",
                         "witness": {"candidate": {k: v for k, v in c.items() if not k.startswith("_")}, "observation": obs, "how": "ironplcc built from /repo working tree"}, "replay": rp}
                    json.dump({"property": pid, "obligation": f["obligation"], "kind": f["kind"], "function": None, "source": None, "clause": f["clause"],
                               "verifier": "bounded check of the real binary (thorough tier: attached inputs with property oracles)", "verifier_message": f["message"],
                               "verifier_output": "", "witness": f["witness"], "note": "replay with ./check %s --replay %s" % (pid, rp)}, open(rp, "w"), indent=1)
                    if not any(x.get("witness") and x["witness"].get("candidate", {}).get("name") == c.get("name") for x in real_violations):
                        real_violations.append(f)
            bounded_results.append({"name": "attached inputs with oracles taken from the property", "bound": "%d inputs" % n_run, "evaluations": n_run,
                                    "failures": n_fail, "level": "bounded (not a proof; not counted among the obligations)"})

    for k in kani_results:
        if k["status"] != "successful":
            undecided.append("kani: assumed contract harness %s: %s" % (k["harness"], k["status"]))

    # Obligations listed as OPEN known findings are not part of what this run claims to discharge: they are reported
    # on their own (KNOWN-FINDING lines, coverage.open_known_findings) and never counted as discharged.
    n_known = len({f["obligation"] for f in knownhits if not f.get("bounded")})
    n_obl_total = n_obl
    n_obl = max(0, n_obl - n_known)
    failed_obl = len({f["obligation"] for f in real_violations})
    discharged = max(0, n_obl - failed_obl) if not undecided else 0
    wall = time.time() - t0
    manifest_level = "proof"
    try:
        man = json.load(open(os.path.join(VERIF, "MANIFEST.json")))
        for c in man["checks"]:
            if c["property_id"] == pid:
                manifest_level = c["level_claimed"]["category"]
    except Exception:
        pass
    trusted = [
        "Verus 0.2026.09.13 (rustc front end, VIR/AIR encoding) and Z3 as its SMT back end",
        "tools/gen.py + tools/rustsrc.py: mechanical extraction (brace matching); drops attributes, doc comments, derives (%s); makes items pub; names results" % ", ".join(sorted(dropped))[:400],
        "stand-in contracts for foreign code listed under assumptions (external_body / assume_specification / axiom)",
    ]
    ev = {
        "property_id": pid, "tier": tier, "seed": seed, "level": manifest_level,
        "coverage": {
            "obligations": n_obl, "discharged": discharged,
            "checker_cmd": "; ".join(sorted({r["cmd"] for r in recs if r["cmd"]}))[:2000],
            "trusted_base": trusted,
            "samples": samples or [{"note": "no contracted function"}],
            "functions_under_contract": functions,
            "distinct_functions_under_contract": len({f["id"].split("/", 1)[1] for f in functions}),
            "note_on_counts": "helper functions of specs/prelude/core_types.rs (SourceSpan::*, Label::span) are re-verified in every unit that includes them; obligations counts them once per unit, distinct_functions_under_contract counts each function once",
            "units": [{"unit": r["unit"], "status": r["status"], "verus_verified_count": r["verified"], "wall_s": round(r["wall"], 2)} for r in recs],
            "backend": "verus/z3",
            "solver_time_s": round(solver_us / 1e6, 3),
            "vacuity_check": "each contracted function re-verified with `ensures false` added and required to fail",
            "explanation": "Obligations = per contracted function: #ensures + #loop-invariant clauses + #decreases + 1 (the implicit safety query: overflow, callee preconditions incl. unwrap/expect/panic reachability, termination). Counted by the splicer on this run; discharged = obligations minus obligations Verus reported failed. An obligation that fails and is listed as an OPEN known finding (known_findings.json) is excluded from both numbers and listed under open_known_findings (obligations_generated counts it): it is a recorded genuine defect of /repo, not something this run discharged. For C04 every extracted function of every unit contributes its implicit safety query.",
            "undecided": undecided,
            "extraction_notes": sorted(notes),
            "obligations_generated": n_obl_total,
            "open_known_findings": [{"obligation": f["obligation"], "what": next((k.get("what") for k in known if k["obligation"] == f["obligation"]), "")} for f in knownhits],
            "known_findings_hit": [f["obligation"] for f in knownhits],
            "kani_validation_of_assumed_contracts": kani_results,
            "bounded_stand_ins": bounded_results,
        },
        "assumptions": sorted(assumptions),
        "wall_s": round(wall, 2),
        "violations": len(real_violations),
    }
    json.dump(ev, open(os.path.join(VERIF, "evidence", pid + ".json"), "w"), indent=1)

    for f in knownhits:
        kf = [k for k in known if k["obligation"] == f["obligation"]]
        print("KNOWN-FINDING: property=%s %s: %s" % (pid, f["obligation"], (kf[0].get("what") if kf else f["message"])))
    for f in real_violations:
        tail = "" if f.get("witness") else " no-failing-input-found"
        print("failed obligation %s [%s] %s :: %s" % (f["obligation"], f["kind"], f["src"], f["clause"][:200]))
        print("VIOLATION property=%s replay=%s%s" % (pid, f["replay"], tail))
    if real_violations:
        return 1
    if undecided:
        for u in undecided:
            print("UNDECIDED: " + u)
        return 2
    print("%s: %d of %d obligations over %d functions in %d units discharged by verus/z3 in %.1fs%s" % (
        pid, discharged, n_obl, n_items, len(recs), wall, (" (+%d failing obligation(s) recorded as open known finding)" % len({f["obligation"] for f in knownhits})) if knownhits else ""))
    return 0


if __name__ == "__main__":
    sys.exit(main(sys.argv[1:]))
