#!/usr/bin/env python3
"""Contracts for the derive(Recurse)-generated traversal (`recurse_visit`).

For every struct/enum of the dsl crate that derives `Recurse` this module
  * reads the TYPE DEFINITION in the source file (fields / variants, their container `Option|Vec|Box|plain`, the
    `#[recurse(ignore)]` markers): that is the macro's input and the source of the CONTRACT ("the visitor's method for
    every non-ignored child is called once, in declaration order; the first error stops the traversal and is returned;
    otherwise the result is Ok");
  * takes the BODY of `impl T { pub fn recurse_visit .. }` from the compiler's macro expansion of the current tree
    (tools/expand.py): that is the code that runs;
  * rewrites the three std shapes Verus rejects to what they denote (recorded as std-equivalent rewrites):
      `opt.as_ref().map_or_else(|| Ok(default), |val| v.m(val))`        -> the `match` it denotes
      `match xs.iter().map(|x| v.m(x)).find(|r| r.is_err()) {..}`       -> the loop that stops at the first Err
      `boxed.as_ref()`                                                    -> `&*boxed`
  * states the contract over a ghost log of the visitor: every `visit_*` method appends `(node, returned Ok?)`.
The stand-in `Visitor<E>` trait (method list and node types) is generated from the expanded trait.
"""
import re
from rustsrc import Src, AnchorLost, mask


def snake(name):
    # convert_case Case::Snake for CamelCase identifiers (digits stay attached to the preceding word)
    s1 = re.sub(r"(.)([A-Z][a-z]+)", r"\1_\2", name)
    return re.sub(r"([a-z0-9])([A-Z])", r"\1_\2", s1).lower()


def split0(text, sep=","):
    m = mask(text)
    parts = []
    depth = 0
    cur = 0
    for i, ch in enumerate(m):
        if ch in "([{<":
            depth += 1
        elif ch in ")]}":
            depth -= 1
        elif ch == ">" and (i == 0 or m[i - 1] != "-"):
            depth -= 1
        elif ch == sep and depth == 0:
            parts.append(text[cur:i])
            cur = i + 1
    parts.append(text[cur:])
    return parts


def container(ty):
    ty = ty.strip()
    mm = re.match(r"^(?:std::option::|core::option::)?Option\s*<(.*)>$", ty, re.S)
    if mm:
        return "Option", mm.group(1).strip()
    mm = re.match(r"^(?:std::vec::)?Vec\s*<(.*)>$", ty, re.S)
    if mm:
        return "Vec", mm.group(1).strip()
    mm = re.match(r"^(?:std::boxed::)?Box\s*<(.*)>$", ty, re.S)
    if mm:
        return "Box", mm.group(1).strip()
    return "Simple", ty


def parse_type_def(s, t):
    """-> {"kind","name","children":[{"name","cont","ty","ignored"}]} from the SOURCE text (attributes included)."""
    text = s.text[t["attr_start"]:t["end"]]
    m = mask(text)
    if "Recurse" not in "".join(re.findall(r"#\[\s*derive\s*\(([^)]*)\)", text)):
        return None
    br = m.find("{", m.find(t["name"]))
    if br < 0:
        return None
    close = Src("<mem>", text).match_close(br)
    inner = text[br + 1:close]
    children = []
    for part in split0(inner):
        pm = mask(part)
        if not pm.strip():
            continue
        ignored = bool(re.search(r"#\[\s*recurse\s*\(\s*ignore\s*\)\s*\]", part))
        # strip attributes and doc comments
        body = re.sub(r"#\[[^\]]*\]", "", part)
        body = re.sub(r"^\s*///.*$", "", body, flags=re.M)
        body = re.sub(r"^\s*//.*$", "", body, flags=re.M).strip()
        if t["kind"] == "struct":
            fm = re.match(r"^(?:pub(?:\([a-z]+\))?\s+)?(\w+)\s*:\s*(.*)$", body, re.S)
            if not fm:
                raise AnchorLost("field of %s not understood: %r" % (t["name"], body[:60]))
            cont, ty = container(fm.group(2))
            children.append({"name": fm.group(1), "cont": cont, "ty": ty, "ignored": ignored})
        else:
            vm = re.match(r"^(\w+)\s*(?:\((.*)\))?$", body, re.S)
            if not vm:
                raise AnchorLost("variant of %s not understood: %r" % (t["name"], body[:60]))
            if vm.group(2) is None:
                children.append({"name": vm.group(1), "cont": "Unit", "ty": None, "ignored": True if ignored else None})
            else:
                cont, ty = container(vm.group(2))
                children.append({"name": vm.group(1), "cont": cont, "ty": ty, "ignored": ignored})
    return {"kind": t["kind"], "name": t["name"], "children": children}


def visitor_methods(exp):
    """(method, node type) of the expanded `pub trait Visitor<E>` in declaration order."""
    s = Src("<expanded>", exp)
    mm = re.search(r"pub trait Visitor\s*<E>\s*\{", s.m)
    if not mm:
        raise AnchorLost("expanded trait Visitor<E> not found")
    close = s.match_close(mm.end() - 1)
    body = s.text[mm.end():close]
    res = []
    for fm in re.finditer(r"fn\s+(visit_\w+)\s*\(\s*&mut self,\s*node:\s*&\s*(\w+)\s*\)", body):
        res.append((fm.group(1), fm.group(2)))
    return res


def expanded_recurse_visit(exp_src, tname):
    """(sig text, body text incl. braces, start offset) of `impl T { pub fn recurse_visit ..}` in the expansion."""
    for im in re.finditer(r"impl\s+" + re.escape(tname) + r"\s*\{", exp_src.m):
        close = exp_src.match_close(im.end() - 1)
        seg = exp_src.m[im.end():close]
        fm = re.search(r"pub fn recurse_visit\b", seg)
        if not fm:
            continue
        a = im.end() + fm.start()
        bo = exp_src.m.find("{", a)
        bc = exp_src.match_close(bo)
        return exp_src.text[a:bo], exp_src.text[bo:bc + 1], a
    return None


def node_expr_spec(child, owner_expr):
    """spec expression of the visited node value for a struct child."""
    return None


VEC_MATCH_TAIL = r"\.iter\(\)\s*\.map\(\|x\|\s*v\.(\w+)\(x\)\)\s*\.find\(\|r\|\s*r\.is_err\(\)\)\s*\{\s*Some\(err\)\s*=>\s*\{?\s*err\s*\}?\s*,?\s*None\s*=>\s*\{?\s*Ok\(V::Value::default\(\)\)\s*\}?\s*,?\s*\}"


def vec_loop(recv, recv_spec, method, ty, extra_inv):
    """the loop `recv.iter().map(|x| v.m(x)).find(|r| r.is_err())` denotes, as an expression of type Result<V::Value, E>"""
    return ("""{
            let ghost verif_l0 = v.log();
            let mut verif_i: usize = 0;
            let mut verif_r: Result<V::Value, E> = Ok(V::Value::default());
            while verif_i < %(recv)s.len() && verif_r.is_ok()
                invariant
                    verif_i <= %(spec)s.len(),
                    verif_r is Ok ==> v.log() == vp_%(sn)s(verif_l0, %(spec)s, verif_i as int),
                    verif_r is Err ==> verif_i >= 1 && v.log() == vp_%(sn)s(verif_l0, %(spec)s, verif_i as int - 1).push((VNode::%(ty)s(%(spec)s[verif_i as int - 1]), false)),
%(extra)s
                decreases %(spec)s.len() - verif_i,
            {
                verif_r = v.%(m)s(&%(recv)s[verif_i]);
                verif_i = verif_i + 1;
            }
            match verif_r { Err(verif_e) => Err(verif_e), Ok(_) => Ok(V::Value::default()) }
        }""" % {"recv": recv, "spec": recv_spec, "sn": snake(ty), "ty": ty, "m": method, "extra": extra_inv})


def generate(types, exp, emit_item):
    """types: list of parsed type defs (with "rel", "lines", "sha" of the definition). exp: expansion text.
    Returns the text of the common part (trait, VNode, vp_* helpers); calls emit_item(tdef, text, rewrites, clauses) per
    verified function in order and collects their text after the common part through the callback's return."""
    methods = visitor_methods(exp)
    m_by_type = {}
    for mname, ty in methods:
        m_by_type.setdefault(ty, mname)
    node_types = []
    for _, ty in methods:
        if ty not in node_types:
            node_types.append(ty)
    out = []
    out.append("// ---- the visitor seen by the generated traversal: every visit_* method appends (node, returned Ok?) to a ghost log.")
    out.append("// Method list and node types are those of the expanded `trait Visitor<E>` (dsl/src/visitor.rs, dispatch!/leaf! macros).")
    out.append("pub trait Default { fn default() -> Self where Self: Sized; }")
    out.append("pub enum VNode {")
    for ty in node_types:
        out.append("    %s(%s)," % (ty, ty))
    out.append("}")
    out.append("pub type VLog = Seq<(VNode, bool)>;")
    out.append("pub trait Visitor<E> {")
    out.append("    type Value: Default;")
    out.append("    spec fn log(&self) -> VLog;")
    for mname, ty in methods:
        out.append("    fn %s(&mut self, node: &%s) -> (r: Result<Self::Value, E>)" % (mname, ty))
        out.append("        ensures final(self).log() == old(self).log().push((VNode::%s(*node), r is Ok));" % ty)
    out.append("}")
    # vp helpers for every type that occurs in a Vec child
    vec_types = []
    for td in types:
        for c in td["children"]:
            if c["cont"] == "Vec" and not c["ignored"] and c["ty"] not in vec_types:
                vec_types.append(c["ty"])
    for ty in vec_types:
        out.append("/// the log after the first n elements of a vector were visited successfully")
        out.append("pub open spec fn vp_%s(l: VLog, s: Seq<%s>, n: int) -> VLog\n    decreases n\n{\n    if n <= 0 { l } else { vp_%s(l, s, n - 1).push((VNode::%s(s[n - 1]), true)) }\n}" % (snake(ty), ty, snake(ty), ty))
    common = "\n".join(out) + "\n"
    exp_src = Src("<expanded>", exp)
    items = []
    for td in types:
        found = expanded_recurse_visit(exp_src, td["name"])
        if not found:
            continue
        sig, body, _ = found
        T = td["name"]
        sn = snake(T)
        rewrites = []
        spec = []
        ens = []
        if td["kind"] == "struct":
            kids = [c for c in td["children"] if not c["ignored"]]
            for c in kids:
                if c["ty"] not in m_by_type:
                    raise AnchorLost("%s.%s: no visitor method for type %s" % (T, c["name"], c["ty"]))
            # after_T(s, l, j): log after the first j children were visited successfully
            spec.append("pub open spec fn after_%s(s: %s, l: VLog, j: int) -> VLog {" % (sn, T))
            prev = "l"
            for j, c in enumerate(kids, 1):
                cur = "l%d" % j
                if c["cont"] in ("Simple",):
                    step = "%s.push((VNode::%s(s.%s), true))" % (prev, c["ty"], c["name"])
                elif c["cont"] == "Box":
                    step = "%s.push((VNode::%s(*s.%s), true))" % (prev, c["ty"], c["name"])
                elif c["cont"] == "Option":
                    step = "match s.%s { Some(verif_c) => %s.push((VNode::%s(verif_c), true)), None => %s }" % (c["name"], prev, c["ty"], prev)
                else:
                    step = "vp_%s(%s, s.%s@, s.%s@.len() as int)" % (snake(c["ty"]), prev, c["name"], c["name"])
                spec.append("    let %s = if j >= %d { %s } else { %s };" % (cur, j, step, prev))
                prev = cur
            spec.append("    %s" % prev)
            spec.append("}")
            spec.append("/// the log after the traversal stopped at the first child whose visit failed")
            spec.append("pub open spec fn failed_%s(s: %s, l: VLog, f: VLog) -> bool {" % (sn, T))
            if not kids:
                spec.append("    false")
            for j, c in enumerate(kids):
                base = "after_%s(s, l, %d)" % (sn, j)
                if c["cont"] == "Simple":
                    spec.append("    ||| f == %s.push((VNode::%s(s.%s), false))" % (base, c["ty"], c["name"]))
                elif c["cont"] == "Box":
                    spec.append("    ||| f == %s.push((VNode::%s(*s.%s), false))" % (base, c["ty"], c["name"]))
                elif c["cont"] == "Option":
                    spec.append("    ||| s.%s is Some && f == %s.push((VNode::%s(s.%s->Some_0), false))" % (c["name"], base, c["ty"], c["name"]))
                else:
                    spec.append("    ||| exists|i: int| 0 <= i < s.%s@.len() && f == vp_%s(%s, s.%s@, i).push((VNode::%s(#[trigger] s.%s@[i]), false))" % (
                        c["name"], snake(c["ty"]), base, c["name"], c["ty"], c["name"]))
            spec.append("}")
            ens.append("r is Ok ==> final(v).log() == after_%s(*self, old(v).log(), %d)," % (sn, len(kids)))
            ens.append("r is Err ==> failed_%s(*self, old(v).log(), final(v).log())," % sn)
            # rewrites of the expanded body, child by child
            for j, c in enumerate(kids):
                f = c["name"]
                if c["cont"] == "Option":
                    rx = r"self\." + f + r"\.as_ref\(\)\s*\.map_or_else\(\|\|\s*Ok\(V::Value::default\(\)\),\s*\|val\|\s*v\.(\w+)\(val\)\s*,?\s*\)"
                    body, n = re.subn(rx, lambda mo: "(match self.%s.as_ref() { None => Ok(V::Value::default()), Some(val) => v.%s(val) })" % (f, mo.group(1)), body)
                    if n != 1:
                        # other ways of writing the visit of an optional child: Option::map / if let
                        rx2 = r"self\." + f + r"\.as_ref\(\)\s*\.map\(\|val\|\s*v\.(\w+)\(val\)\s*,?\s*\)"
                        body, n = re.subn(rx2, lambda mo: "(match self.%s.as_ref() { None => None, Some(val) => Some(v.%s(val)) })" % (f, mo.group(1)), body)
                        if n == 1:
                            rewrites.append({"old": "self.%s.as_ref().map(|val| v.<m>(val))" % f, "new": "the match it denotes", "note": "std-equivalent: Option::map"})
                            continue
                        raise AnchorLost("%s::recurse_visit: Option shape of field %s not found in the expansion" % (T, f))
                    rewrites.append({"old": "self.%s.as_ref().map_or_else(|| Ok(V::Value::default()), |val| v.<m>(val))" % f, "new": "the match it denotes", "note": "std-equivalent: Option::map_or_else"})
                elif c["cont"] == "Vec":
                    rx = r"match\s+self\." + f + VEC_MATCH_TAIL
                    inv = "                    verif_l0 == after_%s(*self, old(v).log(), %d)," % (sn, j)
                    body, n = re.subn(rx, lambda mo: vec_loop("self." + f, "self." + f + "@", mo.group(1), c["ty"], inv), body)
                    if n != 1:
                        raise AnchorLost("%s::recurse_visit: Vec shape of field %s not found in the expansion" % (T, f))
                    rewrites.append({"old": "match self.%s.iter().map(|x| v.<m>(x)).find(|r| r.is_err()) { Some(err) => err, None => Ok(default) }" % f, "new": "the loop that stops at the first Err", "note": "std-equivalent: Iterator::map/find (lazy: stops at the first Err)"})
                elif c["cont"] == "Box":
                    rx = r"&self\." + f + r"\.as_ref\(\)"
                    body, n = re.subn(rx, "&*self." + f, body)
                    if n != 1:
                        raise AnchorLost("%s::recurse_visit: Box shape of field %s not found in the expansion" % (T, f))
                    rewrites.append({"old": "&self.%s.as_ref()" % f, "new": "&*self.%s" % f, "note": "std-equivalent: Box::as_ref"})
        else:
            arms_ok = []
            for c in td["children"]:
                vn = c["name"]
                if c["cont"] == "Unit" or c["ignored"]:
                    pat = "%s::%s" % (T, vn) if c["cont"] == "Unit" else "%s::%s(_)" % (T, vn)
                    arms_ok.append("            %s => r is Ok && final(v).log() == old(v).log()," % pat)
                    continue
                if c["ty"] not in m_by_type:
                    raise AnchorLost("%s::%s: no visitor method for type %s" % (T, vn, c["ty"]))
                if c["cont"] == "Simple":
                    arms_ok.append("            %s::%s(verif_n) => final(v).log() == old(v).log().push((VNode::%s(verif_n), r is Ok))," % (T, vn, c["ty"]))
                elif c["cont"] == "Box":
                    arms_ok.append("            %s::%s(verif_n) => final(v).log() == old(v).log().push((VNode::%s(*verif_n), r is Ok))," % (T, vn, c["ty"]))
                    rx = r"(" + re.escape(T) + r"::" + vn + r"\(node\)\s*=>\s*v\.\w+\()node\.as_ref\(\)\)"
                    body, n = re.subn(rx, r"\1&**node)", body)
                    if n != 1:
                        raise AnchorLost("%s::recurse_visit: Box shape of variant %s not found in the expansion" % (T, vn))
                    rewrites.append({"old": "node.as_ref()", "new": "&**node", "note": "std-equivalent: Box::as_ref"})
                elif c["cont"] == "Vec":
                    arms_ok.append("            %s::%s(verif_n) => if r is Ok { final(v).log() == vp_%s(old(v).log(), verif_n@, verif_n@.len() as int) } else { exists|i: int| 0 <= i < verif_n@.len() && final(v).log() == vp_%s(old(v).log(), verif_n@, i).push((VNode::%s(#[trigger] verif_n@[i]), false)) }," % (
                        T, vn, snake(c["ty"]), snake(c["ty"]), c["ty"]))
                    rx = r"(" + re.escape(T) + r"::" + vn + r"\(nodes\)\s*=>\s*\{?\s*)match\s+nodes" + VEC_MATCH_TAIL
                    body, n = re.subn(rx, lambda mo: mo.group(1) + vec_loop("nodes", "nodes@", mo.group(2), c["ty"], "                    verif_l0 == old(v).log(),"), body)
                    if n != 1:
                        raise AnchorLost("%s::recurse_visit: Vec shape of variant %s not found in the expansion" % (T, vn))
                    rewrites.append({"old": "match nodes.iter().map(|x| v.<m>(x)).find(|r| r.is_err()) {..}", "new": "the loop that stops at the first Err", "note": "std-equivalent: Iterator::map/find"})
                else:
                    raise AnchorLost("%s::%s: Option variants are not supported by the macro" % (T, vn))
            ens.append("match *self {\n" + "\n".join(arms_ok) + "\n        },")
        sig2 = re.sub(r"\s+", " ", sig).strip()
        sig2 = sig2.replace("-> Result<V::Value, E>", "-> (r: Result<V::Value, E>)")
        text = "\n".join(spec) + ("\n" if spec else "")
        text += "impl %s {\n%s\n    ensures\n        %s\n%s\n}\n" % (T, sig2, "\n        ".join(ens), body)
        items.append((td, text, rewrites, ens))
    return common, items
