#!/usr/bin/env python3
"""Contracts for the derive(Recurse)-generated traversal (`recurse_visit`).

For every struct/enum of the dsl crate that derives `Recurse` this module
  * reads the TYPE DEFINITION in the source file (fields / variants, their container `Option|Vec|Box|plain`, the
    `#[recurse(ignore)]` markers): that is the macro's input and the source of the CONTRACT ("the visitor's method for
    every non-ignored child is called once, in declaration order; the first error stops the traversal and is returned;
    otherwise the result is Ok");
  * takes the BODY of `impl T { pub fn recurse_visit .. }` from the compiler's macro expansion of the current tree
    (tools/expand.py): that is the code that runs;
  * rewrites the three std shapes Verus rejects to what they denote (recorded as std-equivalent rewrites):
      `opt.as_ref().map_or_else(|| Ok(default), |val| v.m(val))`        -> the `match` it denotes
      `match xs.iter().map(|x| v.m(x)).find(|r| r.is_err()) {..}`       -> the loop that stops at the first Err
      `boxed.as_ref()`                                                    -> `&*boxed`
  * states the contract over a ghost log of the visitor: every `visit_*` method appends `(node, returned Ok?)`.
The stand-in `Visitor<E>` trait (method list and node types) is generated from the expanded trait.
"""
import re
from rustsrc import Src, AnchorLost, mask


def snake(name):
    # convert_case Case::Snake for CamelCase identifiers (digits stay attached to the preceding word)
    s1 = re.sub(r"(.)([A-Z][a-z]+)", r"\1_\2", name)
    return re.sub(r"([a-z0-9])([A-Z])", r"\1_\2", s1).lower()


def split0(text, sep=","):
    m = mask(text)
    parts = []
    depth = 0
    cur = 0
    for i, ch in enumerate(m):
        if ch in "([{<":
            depth += 1
        elif ch in ")]}":
            depth -= 1
        elif ch == ">" and (i == 0 or m[i - 1] != "-"):
            depth -= 1
        elif ch == sep and depth == 0:
            parts.append(text[cur:i])
            cur = i + 1
    parts.append(text[cur:])
    return parts


def container(ty):
    ty = ty.strip()
    mm = re.match(r"^(?:std::option::|core::option::)?Option\s*<(.*)>$", ty, re.S)
    if mm:
        return "Option", mm.group(1).strip()
    mm = re.match(r"^(?:std::vec::)?Vec\s*<(.*)>$", ty, re.S)
    if mm:
        return "Vec", mm.group(1).strip()
    mm = re.match(r"^(?:std::boxed::)?Box\s*<(.*)>$", ty, re.S)
    if mm:
        return "Box", mm.group(1).strip()
    return "Simple", ty


def parse_type_def(s, t):
    """-> {"kind","name","children":[{"name","cont","ty","ignored"}]} from the SOURCE text (attributes included)."""
    text = s.text[t["attr_start"]:t["end"]]
    m = mask(text)
    if "Recurse" not in "".join(re.findall(r"#\[\s*derive\s*\(([^)]*)\)", text)):
        return None
    br = m.find("{", m.find(t["name"]))
    if br < 0:
        return None
    close = Src("<mem>", text).match_close(br)
    inner = text[br + 1:close]
    children = []
    for part in split0(inner):
        pm = mask(part)
        if not pm.strip():
            continue
        ignored = bool(re.search(r"#\[\s*recurse\s*\(\s*ignore\s*\)\s*\]", part))
        # strip attributes and doc comments
        body = re.sub(r"#\[[^\]]*\]", "", part)
        body = re.sub(r"^\s*///.*$", "", body, flags=re.M)
        body = re.sub(r"^\s*//.*$", "", body, flags=re.M).strip()
        if t["kind"] == "struct":
            fm = re.match(r"^(?:pub(?:\([a-z]+\))?\s+)?(\w+)\s*:\s*(.*)$", body, re.S)
            if not fm:
                raise AnchorLost("field of %s not understood: %r" % (t["name"], body[:60]))
            cont, ty = container(fm.group(2))
            children.append({"name": fm.group(1), "cont": cont, "ty": ty, "ignored": ignored})
        else:
            vm = re.match(r"^(\w+)\s*(?:\((.*)\))?$", body, re.S)
            if not vm:
                raise AnchorLost("variant of %s not understood: %r" % (t["name"], body[:60]))
            if vm.group(2) is None:
                children.append({"name": vm.group(1), "cont": "Unit", "ty": None, "ignored": True if ignored else None})
            else:
                cont, ty = container(vm.group(2))
                children.append({"name": vm.group(1), "cont": cont, "ty": ty, "ignored": ignored})
    return {"kind": t["kind"], "name": t["name"], "children": children}


def visitor_methods(exp):
    """(method, node type) of the expanded `pub trait Visitor<E>` in declaration order."""
    s = Src("<expanded>", exp)
    mm = re.search(r"pub trait Visitor\s*<E>\s*\{", s.m)
    if not mm:
        raise AnchorLost("expanded trait Visitor<E> not found")
    close = s.match_close(mm.end() - 1)
    body = s.text[mm.end():close]
    res = []
    for fm in re.finditer(r"fn\s+(visit_\w+)\s*\(\s*&mut self,\s*node:\s*&\s*(\w+)\s*\)", body):
        res.append((fm.group(1), fm.group(2)))
    return res


def expanded_recurse_visit(exp_src, tname):
    """(sig text, body text incl. braces, start offset) of `impl T { pub fn recurse_visit ..}` in the expansion."""
    for im in re.finditer(r"impl\s+" + re.escape(tname) + r"\s*\{", exp_src.m):
        close = exp_src.match_close(im.end() - 1)
        seg = exp_src.m[im.end():close]
        fm = re.search(r"pub fn recurse_visit\b", seg)
        if not fm:
            continue
        a = im.end() + fm.start()
        bo = exp_src.m.find("{", a)
        bc = exp_src.match_close(bo)
        return exp_src.text[a:bo], exp_src.text[bo:bc + 1], a
    return None


def node_expr_spec(child, owner_expr):
    """spec expression of the visited node value for a struct child."""
    return None


VEC_MATCH_TAIL = r"\.iter\(\)\s*\.map\(\|x\|\s*v\.(\w+)\(x\)\)\s*\.find\(\|r\|\s*r\.is_err\(\)\)\s*\{\s*Some\(err\)\s*=>\s*\{?\s*err\s*\}?\s*,?\s*None\s*=>\s*\{?\s*Ok\(V::Value::default\(\)\)\s*\}?\s*,?\s*\}"


def vec_loop(recv, recv_spec, method, ty, extra_inv):
    """the loop `recv.iter().map(|x| v.m(x)).find(|r| r.is_err())` denotes, as an expression of type Result<V::Value, E>"""
    return ("""{
            let ghost verif_l0 = v.log();
            let mut verif_i: usize = 0;
            let mut verif_r: Result<V::Value, E> = Ok(V::Value::default());
            while verif_i < %(recv)s.len() && verif_r.is_ok()
                invariant
                    verif_i <= %(spec)s.len(),
                    verif_r is Ok ==> v.log() == vp_%(sn)s(verif_l0, %(spec)s, verif_i as int),
                    verif_r is Err ==> verif_i >= 1 && v.log() == vp_%(sn)s(verif_l0, %(spec)s, verif_i as int - 1).push((VNode::%(ty)s(%(spec)s[verif_i as int - 1]), false)),
%(extra)s
                decreases %(spec)s.len() - verif_i,
            {
                verif_r = v.%(m)s(&%(recv)s[verif_i]);
                verif_i = verif_i + 1;
            }
            match verif_r { Err(verif_e) => Err(verif_e), Ok(_) => Ok(V::Value::default()) }
        }""" % {"recv": recv, "spec": recv_spec, "sn": snake(ty), "ty": ty, "m": method, "extra": extra_inv})


def generate(types, exp, emit_item, leaf_ok=(), emit_leaf_defaults=False):
    """types: list of parsed type defs (with "rel", "lines", "sha" of the definition). exp: expansion text.
    Returns the text of the common part (trait, VNode, vp_* helpers); calls emit_item(tdef, text, rewrites, clauses) per
    verified function in order and collects their text after the common part through the callback's return."""
    methods = visitor_methods(exp)
    m_by_type = {}
    for mname, ty in methods:
        m_by_type.setdefault(ty, mname)
    node_types = []
    for _, ty in methods:
        if ty not in node_types:
            node_types.append(ty)
    out = []
    out.append("// ---- the visitor seen by the generated traversal: every visit_* method appends (node, returned Ok?) to a ghost log.")
    out.append("// Method list and node types are those of the expanded `trait Visitor<E>` (dsl/src/visitor.rs, dispatch!/leaf! macros).")
    out.append("pub trait Default { fn default() -> Self where Self: Sized; }")
    out.append("pub enum VNode {")
    for ty in node_types:
        out.append("    %s(%s)," % (ty, ty))
    out.append("}")
    out.append("pub type VLog = Seq<(VNode, bool)>;")
    out.append("pub trait Visitor<E> {")
    out.append("    type Value: Default;")
    out.append("    spec fn log(&self) -> VLog;")
    for mname, ty in methods:
        out.append("    fn %s(&mut self, node: &%s) -> (r: Result<Self::Value, E>)" % (mname, ty))
        out.append("        ensures final(self).log() == old(self).log().push((VNode::%s(*node), r is Ok));" % ty)
    out.append("}")
    # vp helpers for every type that occurs in a Vec child
    vec_types = []
    for td in types:
        for c in td["children"]:
            if c["cont"] == "Vec" and not c["ignored"] and c["ty"] not in vec_types:
                vec_types.append(c["ty"])
    for ty in vec_types:
        out.append("/// the log after the first n elements of a vector were visited successfully")
        out.append("pub open spec fn vp_%s(l: VLog, s: Seq<%s>, n: int) -> VLog\n    decreases n\n{\n    if n <= 0 { l } else { vp_%s(l, s, n - 1).push((VNode::%s(s[n - 1]), true)) }\n}" % (snake(ty), ty, snake(ty), ty))
    common = "\n".join(out) + "\n"
    exp_src = Src("<expanded>", exp)
    items = []
    for td in types:
        found = expanded_recurse_visit(exp_src, td["name"])
        if not found:
            continue
        sig, body, _ = found
        T = td["name"]
        sn = snake(T)
        rewrites = []
        spec = []
        ens = []
        if td["kind"] == "struct":
            kids = [c for c in td["children"] if not c["ignored"]]
            for c in kids:
                if c["ty"] not in m_by_type:
                    raise AnchorLost("%s.%s: no visitor method for type %s" % (T, c["name"], c["ty"]))
            # after_T(s, l, j): log after the first j children were visited successfully
            spec.append("pub open spec fn after_%s(s: %s, l: VLog, j: int) -> VLog {" % (sn, T))
            prev = "l"
            for j, c in enumerate(kids, 1):
                cur = "l%d" % j
                if c["cont"] in ("Simple",):
                    step = "%s.push((VNode::%s(s.%s), true))" % (prev, c["ty"], c["name"])
                elif c["cont"] == "Box":
                    step = "%s.push((VNode::%s(*s.%s), true))" % (prev, c["ty"], c["name"])
                elif c["cont"] == "Option":
                    step = "match s.%s { Some(verif_c) => %s.push((VNode::%s(verif_c), true)), None => %s }" % (c["name"], prev, c["ty"], prev)
                else:
                    step = "vp_%s(%s, s.%s@, s.%s@.len() as int)" % (snake(c["ty"]), prev, c["name"], c["name"])
                spec.append("    let %s = if j >= %d { %s } else { %s };" % (cur, j, step, prev))
                prev = cur
            spec.append("    %s" % prev)
            spec.append("}")
            spec.append("/// the log after the traversal stopped at the first child whose visit failed")
            spec.append("pub open spec fn failed_%s(s: %s, l: VLog, f: VLog) -> bool {" % (sn, T))
            if not kids:
                spec.append("    false")
            for j, c in enumerate(kids):
                base = "after_%s(s, l, %d)" % (sn, j)
                if c["cont"] == "Simple":
                    spec.append("    ||| f == %s.push((VNode::%s(s.%s), false))" % (base, c["ty"], c["name"]))
                elif c["cont"] == "Box":
                    spec.append("    ||| f == %s.push((VNode::%s(*s.%s), false))" % (base, c["ty"], c["name"]))
                elif c["cont"] == "Option":
                    spec.append("    ||| s.%s is Some && f == %s.push((VNode::%s(s.%s->Some_0), false))" % (c["name"], base, c["ty"], c["name"]))
                else:
                    spec.append("    ||| exists|i: int| 0 <= i < s.%s@.len() && f == vp_%s(%s, s.%s@, i).push((VNode::%s(#[trigger] s.%s@[i]), false))" % (
                        c["name"], snake(c["ty"]), base, c["name"], c["ty"], c["name"]))
            spec.append("}")
            ens.append("r is Ok ==> final(v).log() == after_%s(*self, old(v).log(), %d)," % (sn, len(kids)))
            ens.append("r is Err ==> failed_%s(*self, old(v).log(), final(v).log())," % sn)
            # rewrites of the expanded body, child by child
            for j, c in enumerate(kids):
                f = c["name"]
                if c["cont"] == "Option":
                    rx = r"self\." + f + r"\.as_ref\(\)\s*\.map_or_else\(\|\|\s*Ok\(V::Value::default\(\)\),\s*\|val\|\s*v\.(\w+)\(val\)\s*,?\s*\)"
                    body, n = re.subn(rx, lambda mo: "(match self.%s.as_ref() { None => Ok(V::Value::default()), Some(val) => v.%s(val) })" % (f, mo.group(1)), body)
                    if n != 1:
                        # other ways of writing the visit of an optional child: Option::map / if let
                        rx2 = r"self\." + f + r"\.as_ref\(\)\s*\.map\(\|val\|\s*v\.(\w+)\(val\)\s*,?\s*\)"
                        body, n = re.subn(rx2, lambda mo: "(match self.%s.as_ref() { None => None, Some(val) => Some(v.%s(val)) })" % (f, mo.group(1)), body)
                        if n == 1:
                            rewrites.append({"old": "self.%s.as_ref().map(|val| v.<m>(val))" % f, "new": "the match it denotes", "note": "std-equivalent: Option::map"})
                            continue
                        raise AnchorLost("%s::recurse_visit: Option shape of field %s not found in the expansion" % (T, f))
                    rewrites.append({"old": "self.%s.as_ref().map_or_else(|| Ok(V::Value::default()), |val| v.<m>(val))" % f, "new": "the match it denotes", "note": "std-equivalent: Option::map_or_else"})
                elif c["cont"] == "Vec":
                    rx = r"match\s+self\." + f + VEC_MATCH_TAIL
                    inv = "                    verif_l0 == after_%s(*self, old(v).log(), %d)," % (sn, j)
                    body, n = re.subn(rx, lambda mo: vec_loop("self." + f, "self." + f + "@", mo.group(1), c["ty"], inv), body)
                    if n != 1:
                        raise AnchorLost("%s::recurse_visit: Vec shape of field %s not found in the expansion" % (T, f))
                    rewrites.append({"old": "match self.%s.iter().map(|x| v.<m>(x)).find(|r| r.is_err()) { Some(err) => err, None => Ok(default) }" % f, "new": "the loop that stops at the first Err", "note": "std-equivalent: Iterator::map/find (lazy: stops at the first Err)"})
                elif c["cont"] == "Box":
                    rx = r"&?self\." + f + r"\.as_ref\(\)"
                    body, n = re.subn(rx, "&*self." + f, body)
                    if n != 1:
                        raise AnchorLost("%s::recurse_visit: Box shape of field %s not found in the expansion" % (T, f))
                    rewrites.append({"old": "&self.%s.as_ref()" % f, "new": "&*self.%s" % f, "note": "std-equivalent: Box::as_ref"})
        else:
            arms_ok = []
            for c in td["children"]:
                vn = c["name"]
                if c["cont"] == "Unit" or c["ignored"]:
                    pat = "%s::%s" % (T, vn) if c["cont"] == "Unit" else "%s::%s(_)" % (T, vn)
                    arms_ok.append("            %s => r is Ok && final(v).log() == old(v).log()," % pat)
                    continue
                if c["ty"] not in m_by_type:
                    raise AnchorLost("%s::%s: no visitor method for type %s" % (T, vn, c["ty"]))
                if c["cont"] == "Simple":
                    arms_ok.append("            %s::%s(verif_n) => final(v).log() == old(v).log().push((VNode::%s(verif_n), r is Ok))," % (T, vn, c["ty"]))
                elif c["cont"] == "Box":
                    arms_ok.append("            %s::%s(verif_n) => final(v).log() == old(v).log().push((VNode::%s(*verif_n), r is Ok))," % (T, vn, c["ty"]))
                    rx = r"(" + re.escape(T) + r"::" + vn + r"\(node\)\s*=>\s*v\.\w+\()node\.as_ref\(\)\)"
                    body, n = re.subn(rx, r"\1&**node)", body)
                    if n != 1:
                        raise AnchorLost("%s::recurse_visit: Box shape of variant %s not found in the expansion" % (T, vn))
                    rewrites.append({"old": "node.as_ref()", "new": "&**node", "note": "std-equivalent: Box::as_ref"})
                elif c["cont"] == "Vec":
                    arms_ok.append("            %s::%s(verif_n) => if r is Ok { final(v).log() == vp_%s(old(v).log(), verif_n@, verif_n@.len() as int) } else { exists|i: int| 0 <= i < verif_n@.len() && final(v).log() == vp_%s(old(v).log(), verif_n@, i).push((VNode::%s(#[trigger] verif_n@[i]), false)) }," % (
                        T, vn, snake(c["ty"]), snake(c["ty"]), c["ty"]))
                    rx = r"(" + re.escape(T) + r"::" + vn + r"\(nodes\)\s*=>\s*\{?\s*)match\s+nodes" + VEC_MATCH_TAIL
                    body, n = re.subn(rx, lambda mo: mo.group(1) + vec_loop("nodes", "nodes@", mo.group(2), c["ty"], "                    verif_l0 == old(v).log(),"), body)
                    if n != 1:
                        raise AnchorLost("%s::recurse_visit: Vec shape of variant %s not found in the expansion" % (T, vn))
                    rewrites.append({"old": "match nodes.iter().map(|x| v.<m>(x)).find(|r| r.is_err()) {..}", "new": "the loop that stops at the first Err", "note": "std-equivalent: Iterator::map/find"})
                else:
                    raise AnchorLost("%s::%s: Option variants are not supported by the macro" % (T, vn))
            ens.append("match *self {\n" + "\n".join(arms_ok) + "\n        },")
        sig2 = re.sub(r"\s+", " ", sig).strip()
        sig2 = sig2.replace("-> Result<V::Value, E>", "-> (r: Result<V::Value, E>)")
        text = "\n".join(spec) + ("\n" if spec else "")
        text += "impl %s {\n%s\n    ensures\n        %s\n%s\n}\n" % (T, sig2, "\n        ".join(ens), body)
        items.append((td, text, rewrites, ens))
        # the trait's default method for this node type (visitor.rs `dispatch!`): a type with traversed children must be
        # handed to its generated traversal -- same contract as T::recurse_visit
        d = default_method(exp_src, "Visitor", m_by_type.get(T), T)
        if d is not None:
            dsig, dbody = d
            dens = [e.replace("*self", "*node") for e in ens]
            has_kids = any((not c["ignored"]) and c["cont"] != "Unit" for c in td["children"])
            if not has_kids or T in leaf_ok:
                # nothing to traverse (or a recorded exception): either form of default is fine; state what each does
                if "recurse_visit" not in dbody:
                    dens = ["r is Ok && final(v).log() == old(v).log(),"]
            dtext = "pub fn default_%s<V: Visitor<E> + ?Sized, E>(v: &mut V, node: &%s) -> (r: Result<V::Value, E>)\n    ensures\n        %s\n%s\n" % (
                m_by_type[T], T, "\n        ".join(dens), dbody.replace("Self::Value", "V::Value").replace("self", "v"))
            items.append(({"name": "Visitor", "method": m_by_type[T], "rel": "dsl/src/visitor.rs", "node": T, "default": True}, dtext, [
                {"old": "fn %s(&mut self, node: &%s) -> Result<Self::Value, E>" % (m_by_type[T], T), "new": "free generic function over the visitor (`self` -> `v`)", "note": "std-equivalent: a provided trait method is a generic function of the implementor"}], dens))
    # node types without a generated traversal: the default must not visit anything
    derived = set(td["name"] for td in types)
    all_derived = set(re.findall(r"impl (\w+) \{\s*pub fn recurse_visit\b", exp))
    if emit_leaf_defaults:
        for mname, ty in methods:
            if ty in all_derived:
                continue
            d = default_method(exp_src, "Visitor", mname, ty)
            if d is None or "recurse_visit" in d[1]:
                continue
            dens = ["r is Ok && final(v).log() == old(v).log(),"]
            dtext = "pub fn default_%s<V: Visitor<E> + ?Sized, E>(v: &mut V, node: &%s) -> (r: Result<V::Value, E>)\n    ensures\n        %s\n%s\n" % (
                mname, ty, "\n        ".join(dens), d[1].replace("Self::Value", "V::Value").replace("self", "v"))
            items.append(({"name": "Visitor", "method": mname, "rel": "dsl/src/visitor.rs", "node": ty, "default": True}, dtext, [], dens))
    return common, items


def default_method(exp_src, trait, mname, ty):
    """(signature, body incl. braces) of the provided method `mname` of the expanded trait, or None"""
    if mname is None:
        return None
    mm = re.search(r"pub trait " + trait + r"\s*<E>\s*\{", exp_src.m)
    if not mm:
        return None
    close = exp_src.match_close(mm.end() - 1)
    fm = re.search(r"fn\s+" + re.escape(mname) + r"\s*\(", exp_src.m[mm.end():close])
    if not fm:
        return None
    a = mm.end() + fm.start()
    bo = exp_src.m.find("{", a)
    semi = exp_src.m.find(";", a)
    if bo < 0 or (0 <= semi < bo):
        return None
    bc = exp_src.match_close(bo)
    return exp_src.text[a:bo], exp_src.text[bo:bc + 1]


# --------------------------------------------------------------------------
# recurse_fold
# --------------------------------------------------------------------------

def fold_methods(exp):
    s = Src("<expanded>", exp)
    mm = re.search(r"pub trait Fold\s*<E>\s*\{", s.m)
    if not mm:
        raise AnchorLost("expanded trait Fold<E> not found")
    close = s.match_close(mm.end() - 1)
    body = s.text[mm.end():close]
    return [(fm.group(1), fm.group(2)) for fm in re.finditer(r"fn\s+(fold_\w+)\s*\(\s*&mut self,\s*node:\s*(\w+)\s*\)", body)]


def expanded_recurse_fold(exp_src, tname):
    for im in re.finditer(r"impl\s+" + re.escape(tname) + r"\s*\{", exp_src.m):
        close = exp_src.match_close(im.end() - 1)
        seg = exp_src.m[im.end():close]
        fm = re.search(r"pub fn recurse_fold\b", seg)
        if not fm:
            continue
        a = im.end() + fm.start()
        bo = exp_src.m.find("{", a)
        bc = exp_src.match_close(bo)
        return exp_src.text[a:bo], exp_src.text[bo:bc + 1]
    return None


def fold_vec_loop(src_expr, src_spec, method, ty, extra_inv):
    """`src.into_iter().map(|x| f.m(x)).collect::<Result<Vec<_>, E>>()?` as the loop it denotes (stops at the first Err)"""
    return ("""{
            let ghost verif_l0 = f.log();
            let ghost verif_s = %(spec)s;
            let mut verif_out: Vec<%(ty)s> = Vec::new();
            for x in verif_it: %(src)s
                invariant
                    f.log() == fp_%(sn)s(verif_l0, verif_s, verif_out@, verif_it.index@ as int),
                    verif_out@.len() == verif_it.index@, verif_it.index@ <= verif_s.len(),
                    verif_s == %(src)s@, verif_it.history@ =~= verif_s.take(verif_it.index@ as int),
%(extra)s
            {
                let ghost verif_o = verif_out@;
                let ghost verif_n = verif_it.index@ as int;
                match f.%(m)s(x) {
                    Ok(verif_y) => {
                        verif_out.push(verif_y);
                        proof { assert(x == verif_s[verif_n]); lemma_fp_%(sn)s_ext(verif_l0, verif_s, verif_o, verif_out@, verif_n); }
                    }
                    Err(verif_e) => { return Err(verif_e); }
                }
            }
            verif_out
        }""" % {"src": src_expr, "spec": src_spec, "sn": snake(ty), "ty": ty, "m": method, "extra": extra_inv})


FOLD_VEC_RX = r"\{\s*let folds:\s*Result<Vec<_>,\s*E>\s*=\s*%s\s*\.into_iter\(\)\s*\.map\(\|x\|\s*f\.(\w+)\(x\)\)\s*\.collect\(\);\s*%s\s*\}"


def generate_fold(types, exp, leaf_ok=(), emit_leaf_defaults=False):
    methods = fold_methods(exp)
    m_by_type = {}
    for mname, ty in methods:
        m_by_type.setdefault(ty, mname)
    node_types = []
    for _, ty in methods:
        if ty not in node_types:
            node_types.append(ty)
    out = []
    out.append("// ---- the folder seen by the generated traversal: every fold_* method appends (node given, node returned if Ok) to a ghost log.")
    out.append("// Method list and node types are those of the expanded `trait Fold<E>` (dsl/src/fold.rs, dispatch!/leaf! macros).")
    out.append("pub enum VNode {")
    for ty in node_types:
        out.append("    %s(%s)," % (ty, ty))
    out.append("}")
    out.append("pub type FLog = Seq<(VNode, Option<VNode>)>;")
    out.append("pub trait Fold<E> {")
    out.append("    spec fn log(&self) -> FLog;")
    for mname, ty in methods:
        out.append("    fn %s(&mut self, node: %s) -> (r: Result<%s, E>)" % (mname, ty, ty))
        out.append("        ensures final(self).log() == old(self).log().push((VNode::%s(node), match r { Ok(verif_n) => Some(VNode::%s(verif_n)), Err(_) => None }));" % (ty, ty))
    out.append("}")
    out.append("/// an error is returned only when the fold call made last failed")
    out.append("pub open spec fn fold_failed(l: FLog) -> bool { l.len() > 0 && l.last().1 is None }")
    vec_types = []
    for td in types:
        for c in td["children"]:
            if c["cont"] == "Vec" and not c["ignored"] and c["ty"] not in vec_types:
                vec_types.append(c["ty"])
    for ty in vec_types:
        sn = snake(ty)
        out.append("/// the log after the first n elements of a vector were folded into the first n elements of `o`")
        out.append("pub open spec fn fp_%s(l: FLog, s: Seq<%s>, o: Seq<%s>, n: int) -> FLog\n    decreases n\n{\n    if n <= 0 { l } else { fp_%s(l, s, o, n - 1).push((VNode::%s(s[n - 1]), Some(VNode::%s(o[n - 1])))) }\n}" % (sn, ty, ty, sn, ty, ty))
        out.append("pub proof fn lemma_fp_%s_ext(l: FLog, s: Seq<%s>, o1: Seq<%s>, o2: Seq<%s>, n: int)\n    requires 0 <= n <= o1.len(), o1.len() <= o2.len(), forall|i: int| 0 <= i < n ==> o1[i] == o2[i],\n    ensures fp_%s(l, s, o1, n) == fp_%s(l, s, o2, n),\n    decreases n\n{ if n > 0 { lemma_fp_%s_ext(l, s, o1, o2, n - 1); } }" % (sn, ty, ty, ty, sn, sn, sn))
    common = "\n".join(out) + "\n"
    exp_src = Src("<expanded>", exp)
    items = []
    for td in types:
        found = expanded_recurse_fold(exp_src, td["name"])
        if not found:
            continue
        sig, body = found
        T = td["name"]
        sn = snake(T)
        rewrites = []
        spec = []
        ens = []
        if td["kind"] == "struct":
            kids = [c for c in td["children"] if not c["ignored"]]
            for c in kids:
                if c["ty"] not in m_by_type:
                    raise AnchorLost("%s.%s: no fold method for type %s" % (T, c["name"], c["ty"]))
            spec.append("/// the log after the first j children of `s` were folded into the corresponding children of `res`")
            spec.append("pub open spec fn folded_%s(s: %s, res: %s, l: FLog, j: int) -> FLog {" % (sn, T, T))
            prev = "l"
            for j, c in enumerate(kids, 1):
                cur = "l%d" % j
                f_ = c["name"]
                if c["cont"] == "Simple":
                    step = "%s.push((VNode::%s(s.%s), Some(VNode::%s(res.%s))))" % (prev, c["ty"], f_, c["ty"], f_)
                elif c["cont"] == "Box":
                    step = "%s.push((VNode::%s(*s.%s), Some(VNode::%s(*res.%s))))" % (prev, c["ty"], f_, c["ty"], f_)
                elif c["cont"] == "Option":
                    step = "match s.%s { Some(verif_c) => %s.push((VNode::%s(verif_c), Some(VNode::%s(res.%s->Some_0)))), None => %s }" % (f_, prev, c["ty"], c["ty"], f_, prev)
                else:
                    step = "fp_%s(%s, s.%s@, res.%s@, s.%s@.len() as int)" % (snake(c["ty"]), prev, f_, f_, f_)
                spec.append("    let %s = if j >= %d { %s } else { %s };" % (cur, j, step, prev))
                prev = cur
            spec.append("    %s" % prev)
            spec.append("}")
            spec.append("/// the result has the shape of the node folded: optional children stay present / absent, vectors keep their length, what is not traversed is kept")
            spec.append("pub open spec fn shape_%s(s: %s, res: %s) -> bool {" % (sn, T, T))
            spec.append("    &&& true")
            for c in td["children"]:
                f_ = c["name"]
                if c["ignored"]:
                    spec.append("    &&& res.%s == s.%s" % (f_, f_))
                elif c["cont"] == "Option":
                    spec.append("    &&& (s.%s is Some <==> res.%s is Some)" % (f_, f_))
                elif c["cont"] == "Vec":
                    spec.append("    &&& s.%s@.len() == res.%s@.len()" % (f_, f_))
            spec.append("}")
            ens.append("r is Ok ==> shape_%s(self, r->Ok_0) && final(f).log() == folded_%s(self, r->Ok_0, old(f).log(), %d)," % (sn, sn, len(kids)))
            ens.append("r is Err ==> fold_failed(final(f).log()),")
            # the body: `{ Ok(T { f1: e1, ... }) }` -> let-bindings in field order, then the literal
            inner = body.strip()[1:-1].strip()
            lm = re.match(r"^Ok\(\s*" + re.escape(T) + r"\s*\{(.*)\}\s*\)$", inner, re.S)
            if not lm:
                raise AnchorLost("%s::recurse_fold: body is not `Ok(%s { .. })`" % (T, T))
            fields = [p for p in split0(lm.group(1)) if p.strip()]
            lets = []
            names = []
            j = 0
            all_fields = [c["name"] for c in td["children"]]
            for part in fields:
                fm = re.match(r"^\s*(\w+)\s*:\s*(.*)$", part, re.S)
                if not fm:
                    raise AnchorLost("%s::recurse_fold: field initialiser not understood: %r" % (T, part[:60]))
                fname, expr = fm.group(1), fm.group(2).strip()
                names.append(fname)
                cs = [c for c in td["children"] if c["name"] == fname]
                if not cs:
                    raise AnchorLost("%s::recurse_fold: field %s is not in the type definition" % (T, fname))
                c = cs[0]
                if not c["ignored"]:
                    j += 1
                if c["ignored"] or c["cont"] in ("Simple", "Box") or re.match(r"^self\.\w+$", expr):
                    # (a child handed over unfolded stays as written: the contract then fails, as it should)
                    pass
                elif c["cont"] == "Option":
                    rx = r"^self\." + fname + r"\s*\.map\(\|x\|\s*f\.(\w+)\(x\)\)\s*\.transpose\(\)\?$"
                    mo = re.match(rx, expr, re.S)
                    if not mo:
                        raise AnchorLost("%s::recurse_fold: Option shape of field %s not found in the expansion" % (T, fname))
                    expr = "(match self.%s { None => None, Some(x) => Some(f.%s(x)?) })" % (fname, mo.group(1))
                    rewrites.append({"old": "self.%s.map(|x| f.<m>(x)).transpose()?" % fname, "new": "the match it denotes", "note": "std-equivalent: Option::map + Option::transpose + ?"})
                else:
                    mo = re.match("^" + FOLD_VEC_RX % (r"self\." + fname, r"folds\?") + "$", expr, re.S)
                    if not mo:
                        raise AnchorLost("%s::recurse_fold: Vec shape of field %s not found in the expansion" % (T, fname))
                    done = names[:-1]
                    partial = "%s { %s }" % (T, ", ".join("%s: %s" % (n_, ("verif_f_" + n_) if n_ in done else "verif_self." + n_) for n_ in all_fields))
                    lets.append("            let ghost verif_p%d = %s;" % (j, partial))
                    inv = "                    verif_l0 == folded_%s(verif_self, verif_p%d, old(f).log(), %d)," % (sn, j, j - 1)
                    expr = fold_vec_loop("self." + fname, "verif_self." + fname + "@", mo.group(1), c["ty"], inv)
                    rewrites.append({"old": "{ let folds: Result<Vec<_>, E> = self.%s.into_iter().map(|x| f.<m>(x)).collect(); folds? }" % fname, "new": "the loop that stops at the first Err", "note": "std-equivalent: collect into Result<Vec<_>, E>"})
                lets.append("            let verif_f_%s = %s;" % (fname, expr))
            if sorted(names) != sorted(all_fields):
                raise AnchorLost("%s::recurse_fold: the literal does not initialise exactly the fields of the type" % T)
            rewrites.append({"old": "Ok(%s { f: e, .. })" % T, "new": "let verif_f_f = e; .. Ok(%s { f: verif_f_f, .. })" % T, "note": "std-equivalent: the fields of a struct literal are evaluated in the order written"})
            body = "{\n            let ghost verif_self = self;\n" + "\n".join(lets) + "\n            Ok(%s { %s })\n        }" % (T, ", ".join("%s: verif_f_%s" % (n_, n_) for n_ in names))
        else:
            arms = []
            for c in td["children"]:
                vn = c["name"]
                if c["cont"] == "Unit" or c["ignored"]:
                    pat = "%s::%s" % (T, vn) if c["cont"] == "Unit" else "%s::%s(_)" % (T, vn)
                    arms.append("            %s => r == Ok::<%s, E>(self) && final(f).log() == old(f).log()," % (pat, T))
                    continue
                if c["ty"] not in m_by_type:
                    raise AnchorLost("%s::%s: no fold method for type %s" % (T, vn, c["ty"]))
                if c["cont"] == "Simple":
                    arms.append("            %s::%s(verif_n) => r is Ok ==> r->Ok_0 is %s && final(f).log() == old(f).log().push((VNode::%s(verif_n), Some(VNode::%s(r->Ok_0->%s_0))))," % (T, vn, vn, c["ty"], c["ty"], vn))
                elif c["cont"] == "Box":
                    arms.append("            %s::%s(verif_n) => r is Ok ==> r->Ok_0 is %s && final(f).log() == old(f).log().push((VNode::%s(*verif_n), Some(VNode::%s(*r->Ok_0->%s_0))))," % (T, vn, vn, c["ty"], c["ty"], vn))
                elif c["cont"] == "Vec":
                    arms.append("            %s::%s(verif_n) => r is Ok ==> r->Ok_0 is %s && r->Ok_0->%s_0@.len() == verif_n@.len() && final(f).log() == fp_%s(old(f).log(), verif_n@, r->Ok_0->%s_0@, verif_n@.len() as int)," % (T, vn, vn, vn, snake(c["ty"]), vn))
                    rx = r"(" + re.escape(T) + r"::" + vn + r"\(node\)\s*=>\s*)\{\s*let folds:\s*Result<Vec<_>,\s*E>\s*=\s*node\s*\.into_iter\(\)\s*\.map\(\|x\|\s*f\.(\w+)\(x\)\)\s*\.collect\(\);\s*Ok\(" + re.escape(T) + r"::" + vn + r"\(folds\?\)\)\s*\}"

                    def rep(mo, c=c, vn=vn):
                        loop = fold_vec_loop("node", "verif_nodes", mo.group(2), c["ty"], "                    verif_l0 == old(f).log(),")
                        return mo.group(1) + "{ let ghost verif_nodes = node@; let verif_v = " + loop + "; Ok(%s::%s(verif_v)) }" % (T, vn)
                    body, n = re.subn(rx, rep, body)
                    if n != 1:
                        raise AnchorLost("%s::recurse_fold: Vec shape of variant %s not found in the expansion" % (T, vn))
                    rewrites.append({"old": "{ let folds: Result<Vec<_>, E> = node.into_iter().map(|x| f.<m>(x)).collect(); Ok(%s::%s(folds?)) }" % (T, vn), "new": "the loop that stops at the first Err", "note": "std-equivalent: collect into Result<Vec<_>, E>"})
                else:
                    raise AnchorLost("%s::%s: Option variants are not supported by the macro" % (T, vn))
            ens.append("match self {\n" + "\n".join(arms) + "\n        },")
            ens.append("r is Err ==> fold_failed(final(f).log()),")
        sig2 = re.sub(r"\s+", " ", sig).strip()
        sig2 = re.sub(r"-> Result<(\w+), E>", r"-> (r: Result<\1, E>)", sig2)
        text = "\n".join(spec) + ("\n" if spec else "")
        text += "impl %s {\n%s\n    ensures\n        %s\n%s\n}\n" % (T, sig2, "\n        ".join(ens), body)
        items.append((td, text, rewrites, ens))
        # the trait's default method for this node type (fold.rs `dispatch!`)
        d = default_method(exp_src, "Fold", m_by_type.get(T), T)
        if d is not None:
            dsig, dbody = d
            dens = [re.sub(r"\bself\b", "node", e) for e in ens]
            has_kids = any((not c["ignored"]) and c["cont"] != "Unit" for c in td["children"])
            if (not has_kids or T in leaf_ok) and "recurse_fold" not in dbody:
                dens = ["r == Ok::<%s, E>(node) && final(f).log() == old(f).log()," % T]
            dtext = "pub fn default_%s<F: Fold<E> + ?Sized, E>(f: &mut F, node: %s) -> (r: Result<%s, E>)\n    ensures\n        %s\n%s\n" % (
                m_by_type[T], T, T, "\n        ".join(dens), re.sub(r"\bself\b", "f", dbody))
            items.append(({"name": "Fold", "method": m_by_type[T], "rel": "dsl/src/fold.rs", "node": T, "default": True}, dtext, [
                {"old": "fn %s(&mut self, node: %s) -> Result<%s, E>" % (m_by_type[T], T, T), "new": "free generic function over the folder (`self` -> `f`)", "note": "std-equivalent: a provided trait method is a generic function of the implementor"}], dens))
    all_derived = set(re.findall(r"impl (\w+) \{\s*pub fn recurse_fold\b", exp))
    if emit_leaf_defaults:
        for mname, ty in methods:
            if ty in all_derived:
                continue
            d = default_method(exp_src, "Fold", mname, ty)
            if d is None or "recurse_fold" in d[1]:
                continue
            dens = ["r == Ok::<%s, E>(node) && final(f).log() == old(f).log()," % ty]
            dtext = "pub fn default_%s<F: Fold<E> + ?Sized, E>(f: &mut F, node: %s) -> (r: Result<%s, E>)\n    ensures\n        %s\n%s\n" % (
                mname, ty, ty, "\n        ".join(dens), re.sub(r"\bself\b", "f", d[1]))
            items.append(({"name": "Fold", "method": mname, "rel": "dsl/src/fold.rs", "node": ty, "default": True}, dtext, [], dens))
    return common, items
