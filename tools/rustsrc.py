"""Lexically-aware locator for items in Rust source text (and peg grammar text).

Nothing here parses Rust; it masks comments / string / char literals and then
does brace matching and regex search on the masked text. Bodies are always
returned as byte-for-byte slices of the original text.
"""
import re


class AnchorLost(Exception):
    """The named item / loop / label was not found in the current tree."""


def mask(text):
    """Return text of the same length where comments and the *contents* of
    string/char literals are replaced by spaces (newlines kept)."""
    out = list(text)
    n = len(text)
    i = 0

    def blank(a, b):
        for k in range(a, b):
            if out[k] != "\n":
                out[k] = " "

    while i < n:
        c = text[i]
        if c == "/" and i + 1 < n and text[i + 1] == "/":
            j = text.find("\n", i)
            if j < 0:
                j = n
            blank(i, j)
            i = j
        elif c == "/" and i + 1 < n and text[i + 1] == "*":
            depth = 1
            j = i + 2
            while j < n and depth > 0:
                if text.startswith("/*", j):
                    depth += 1
                    j += 2
                elif text.startswith("*/", j):
                    depth -= 1
                    j += 2
                else:
                    j += 1
            blank(i, j)
            i = j
        elif c == '"' or (c in "rb" and re.match(r'(?:br|rb|r|b)#*"', text[i:i + 6]) and (i == 0 or not (text[i - 1].isalnum() or text[i - 1] == "_"))):
            m = re.match(r'(br|rb|r|b)?(#*)"', text[i:i + 8])
            prefix = m.group(1) or ""
            hashes = m.group(2)
            start = i + m.end()
            if "r" in prefix:
                endtok = '"' + hashes
                j = text.find(endtok, start)
                if j < 0:
                    j = n
                blank(start, j)
                i = j + len(endtok)
            else:
                j = start
                while j < n and text[j] != '"':
                    if text[j] == "\\":
                        j += 2
                    else:
                        j += 1
                blank(start, j)
                i = j + 1
        elif c == "'":
            # char literal or lifetime
            if i + 1 < n and text[i + 1] == "\\":
                j = i + 2
                # escaped char: find closing quote
                j = text.find("'", j + 1) if text[j] != "'" else text.find("'", j + 1)
                if j < 0:
                    j = n
                blank(i + 1, j)
                i = j + 1
            elif i + 2 < n and text[i + 2] == "'":
                blank(i + 1, i + 2)
                i = i + 3
            else:
                # multi-byte char literal like 'é' : look for closing within 5 chars w/o identifier chars
                m = re.match(r"'([^'\\\n])'", text[i:i + 8])
                if m:
                    blank(i + 1, i + m.end() - 1)
                    i += m.end()
                else:
                    i += 1  # lifetime
        else:
            i += 1
    return "".join(out)


OPEN = {"{": "}", "(": ")", "[": "]"}


class Src:
    def __init__(self, path, text=None):
        self.path = path
        self.text = text if text is not None else open(path, encoding="utf-8").read()
        self.m = mask(self.text)

    # ---- generic helpers -------------------------------------------------
    def match_close(self, i):
        """i indexes an opening bracket in masked text; return index of its closer."""
        o = self.m[i]
        c = OPEN[o]
        depth = 0
        n = len(self.m)
        k = i
        while k < n:
            ch = self.m[k]
            if ch == o:
                depth += 1
            elif ch == c:
                depth -= 1
                if depth == 0:
                    return k
            k += 1
        raise AnchorLost("unbalanced %s at %d in %s" % (o, i, self.path))

    def line_of(self, idx):
        return self.text.count("\n", 0, idx) + 1

    def item_start(self, idx):
        """Walk back from idx (start of `pub fn`/`fn`/`struct` keyword line) over
        attributes and doc comments; return the index where the item's
        attribute block starts (start of a line)."""
        # move to line start
        ls = self.text.rfind("\n", 0, idx) + 1
        while ls > 0:
            pe = ls - 1
            ps = self.text.rfind("\n", 0, pe) + 1
            line = self.text[ps:pe].strip()
            if line.startswith("#[") or line.startswith("///") or line.startswith("//!"):
                ls = ps
            elif line.endswith("]") and not line.startswith("#[") and self._in_multiline_attr(ps):
                ls = self._in_multiline_attr(ps)
            else:
                break
        return ls

    def _in_multiline_attr(self, ps):
        # crude: search back up to 10 lines for a line starting with '#[' whose bracket closes at/after ps
        cur = ps
        for _ in range(12):
            if cur <= 0:
                return 0
            pe = cur - 1
            cur = self.text.rfind("\n", 0, pe) + 1
            line = self.text[cur:pe].strip()
            if line.startswith("#["):
                br = self.m.find("[", cur)
                try:
                    close = self.match_close(br)
                except AnchorLost:
                    return 0
                return cur if close >= ps else 0
        return 0

    # ---- functions ---------------------------------------------------------
    def find_fn(self, name, lo=0, hi=None, depth_of=None):
        """Locate `fn name` whose keyword lies in [lo,hi) at the brace depth of `lo`+0
        (i.e. not nested in another fn). Returns dict with indices."""
        hi = len(self.m) if hi is None else hi
        pat = re.compile(r"\bfn\s+" + re.escape(name) + r"\b")
        for mm in pat.finditer(self.m, lo, hi):
            # require depth 0 relative to lo
            if self._depth(lo, mm.start()) != 0:
                continue
            # signature start: beginning of line (include pub / pub(crate) / const etc.)
            ls = self.m.rfind("\n", 0, mm.start()) + 1
            # find body open: first '{' at paren depth 0 after name, or ';' (trait decl)
            k = mm.end()
            pd = 0
            body_open = None
            while k < hi:
                ch = self.m[k]
                if ch in "([":
                    pd += 1
                elif ch in ")]":
                    pd -= 1
                elif ch == "{" and pd == 0:
                    body_open = k
                    break
                elif ch == ";" and pd == 0:
                    break
                k += 1
            if body_open is None:
                continue
            body_close = self.match_close(body_open)
            return {
                "attr_start": self.item_start(ls),
                "sig_start": ls,
                "name_end": mm.end(),
                "body_open": body_open,
                "body_close": body_close,
            }
        raise AnchorLost("fn %s not found in %s" % (name, self.path))

    def _depth(self, lo, idx):
        d = 0
        seg = self.m[lo:idx]
        return seg.count("{") - seg.count("}")

    # ---- impl blocks -------------------------------------------------------
    def find_impl(self, header, nth=1):
        """header: text between 'impl' and '{', whitespace-normalised, e.g.
        'From<Integer> for FixedPoint' or 'DurationLiteral'."""
        want = norm_ws(header)
        count = 0
        for mm in re.finditer(r"^\s*impl\b", self.m, re.M):
            br = self.m.find("{", mm.end())
            if br < 0:
                continue
            got = norm_ws(self.text[mm.end():br])
            if got == want:
                count += 1
                if count == nth:
                    return {"kw": mm.start(), "open": br, "close": self.match_close(br), "header": self.text[mm.end():br].strip()}
        raise AnchorLost("impl %s (#%d) not found in %s" % (header, nth, self.path))

    # ---- types -------------------------------------------------------------
    def find_type(self, name):
        pat = re.compile(r"^(pub(\([a-z]+\))?\s+)?(struct|enum)\s+" + re.escape(name) + r"\b", re.M)
        for mm in pat.finditer(self.m):
            if self._depth(0, mm.start()) != 0:
                continue
            return self._type_at(mm)
        raise AnchorLost("type %s not found in %s" % (name, self.path))

    def all_types(self):
        pat = re.compile(r"^(pub(\([a-z]+\))?\s+)?(struct|enum)\s+(\w+)", re.M)
        res = []
        for mm in pat.finditer(self.m):
            if self._depth(0, mm.start()) != 0:
                continue
            res.append(self._type_at(mm))
        return res

    def _type_at(self, mm):
        kind = mm.group(3)
        name = re.search(r"(struct|enum)\s+(\w+)", self.m[mm.start():mm.end() + 80]).group(2)
        # end: either ';' (unit / tuple struct) or matching brace
        k = mm.end()
        n = len(self.m)
        pd = 0
        while k < n:
            ch = self.m[k]
            if ch == "(":
                k = self.match_close(k)
            elif ch == "{":
                end = self.match_close(k) + 1
                break
            elif ch == ";":
                end = k + 1
                break
            k += 1
        else:
            raise AnchorLost("type end not found")
        return {"kind": kind, "name": name, "attr_start": self.item_start(mm.start()), "start": mm.start(), "end": end}

    # ---- loops inside a body ----------------------------------------------
    def loops(self, body_open, body_close):
        """Return list of loops (in textual order) inside (body_open, body_close):
        dicts with kind, kw index, header end (index of '{')."""
        res = []
        pat = re.compile(r"\b(for|while|loop)\b")
        for mm in pat.finditer(self.m, body_open + 1, body_close):
            kw = mm.group(1)
            # skip `for` in `impl X for Y` / HRTB — not expected inside bodies
            k = mm.end()
            pd = 0
            hdr_end = None
            while k < body_close:
                ch = self.m[k]
                if ch in "([":
                    pd += 1
                elif ch in ")]":
                    pd -= 1
                elif ch == "{" and pd == 0:
                    # `while let Some(x) = foo {`: struct-literal braces are not allowed in headers, so first '{' is the body
                    hdr_end = k
                    break
                elif ch == ";" and pd == 0:
                    break
                k += 1
            if hdr_end is None:
                continue
            res.append({"kind": kw, "kw": mm.start(), "kw_end": mm.end(), "open": hdr_end, "close": self.match_close(hdr_end)})
        return res


def norm_ws(s):
    s = re.sub(r"\s+", " ", s.strip())
    s = re.sub(r"\s*([<>,:&()])\s*", r"\1", s)
    return s
