#!/usr/bin/env python3
"""Mutation testing of the CONTRACTS (development aid, not a registered check).

For one unit: every function under contract is mutated in a scratch copy of /repo (one small syntactic change at a
time inside the function's source lines), the unit is regenerated from the scratch copy and verified. A mutant that
still verifies ("survived") shows a place where the contract does not pin the behaviour down: either an equivalent
mutant or a contract to strengthen. Mutants that Verus fails, rejects, or whose anchors are lost are "killed" (the
latter two would need a witness in the real check).

usage: python3 tools/mutate.py <unit> [--max N] [--jobs J]
"""
import concurrent.futures as cf
import json
import os
import re
import shutil
import subprocess
import sys
import tempfile

HERE = os.path.dirname(os.path.abspath(__file__))
VERIF = os.path.dirname(HERE)
sys.path.insert(0, HERE)

OPS = [
    (r"(?<![<>=!\-])<=(?!=)", "<"), (r"(?<![<>=!\-])>=(?!=)", ">"),
    (r"(?<![<>=!\-:])<(?![<=])", "<="), (r"(?<![<>=!\-])>(?![>=])", ">="),
    (r"==", "!="), (r"!=", "=="),
    (r"&&", "||"), (r"\|\|", "&&"),
    (r"(?<![+\w)\]] )\+(?![+=])", "-"), (r" - ", " + "),
    (r"\btrue\b", "false"), (r"\bfalse\b", "true"),
    (r"\b(\d+)\b", None),  # n -> n+1
    (r"\.is_some\(\)", ".is_none()"), (r"\.is_none\(\)", ".is_some()"),
    (r"\.is_empty\(\)", ".len() > 0"),
    (r"\.is_ok\(\)", ".is_err()"), (r"\.is_err\(\)", ".is_ok()"),
]


def mutants_for(lines, a, b):
    """yield (line_no, description, new_line) for source lines a..b (1-based, inclusive)"""
    for ln in range(a, min(b, len(lines)) + 1):
        line = lines[ln - 1]
        code = line.split("//")[0]
        if not code.strip() or code.strip().startswith(("#", "///", "fn ", "pub fn ", "}", "{")):
            continue
        for rx, rep in OPS:
            for k, m in enumerate(re.finditer(rx, code)):
                if k >= 2:
                    break
                if rep is None:
                    new = str(int(m.group(1)) + 1)
                    if len(m.group(1)) > 6:
                        continue
                else:
                    new = rep
                yield ln, "%s -> %s at col %d" % (m.group(0), new, m.start()), code[:m.start()] + new + code[m.end():] + line[len(code):]
        # statement deletion: a call statement on its own line
        if re.match(r"^\s*(self\.)?[\w.]+\([^;]*\);\s*$", code) and "let " not in code and "return" not in code:
            yield ln, "statement deleted", re.match(r"^\s*", line).group(0) + "// deleted\n" if line.endswith("\n") else ""


def run_mutant(unit, rel, ln, desc, new_line, scratch_root):
    d = tempfile.mkdtemp(prefix="mut_", dir=scratch_root)
    try:
        dst = os.path.join(d, "compiler")
        shutil.copytree("/repo/compiler", dst, ignore=shutil.ignore_patterns("target", "*.lock"), symlinks=True)
        p = os.path.join(dst, rel)
        lines = open(p, encoding="utf-8").read().split("\n")
        lines[ln - 1] = new_line.rstrip("\n")
        open(p, "w", encoding="utf-8").write("\n".join(lines))
        out = os.path.join(d, "u.rs")
        env = dict(os.environ, VERIF_REPO=d)
        g = subprocess.run([sys.executable, os.path.join(HERE, "gen.py"), os.path.join(VERIF, "specs", "units", unit + ".vrs"), "-o", out],
                           env=env, stdout=subprocess.PIPE, stderr=subprocess.STDOUT, text=True)
        if g.returncode != 0:
            return "killed:anchor", g.stdout[-200:]
        v = subprocess.run(["verus", "--triggers-mode", "silent", "--rlimit", "50", out], stdout=subprocess.PIPE, stderr=subprocess.STDOUT, text=True, timeout=900)
        m = re.search(r"verification results:: (\d+) verified, (\d+) errors", v.stdout)
        if not m:
            return "killed:rejected", v.stdout[-300:]
        return ("survived" if int(m.group(2)) == 0 else "killed:proof"), m.group(0)
    except subprocess.TimeoutExpired:
        return "killed:timeout", ""
    finally:
        shutil.rmtree(d, ignore_errors=True)


def main():
    import argparse
    ap = argparse.ArgumentParser()
    ap.add_argument("unit")
    ap.add_argument("--max", type=int, default=400)
    ap.add_argument("--jobs", type=int, default=12)
    ap.add_argument("--baseline-errors", type=int, default=0, help="errors the unchanged unit has (open known findings)")
    a = ap.parse_args()
    meta = json.load(open(os.path.join(VERIF, "out", "gen", a.unit + ".rs.meta.json")))
    todo = []
    seen = set()
    for it in meta["items"]:
        if it.get("trusted") or it["kind"] == "lemma" or not it["src"].endswith(".rs") or it["src"].startswith("specs/"):
            continue
        key = (it["src"], tuple(it["src_lines"]))
        if key in seen:
            continue
        seen.add(key)
        lines = open(os.path.join("/repo/compiler", it["src"]), encoding="utf-8").read().split("\n")
        for ln, desc, new in mutants_for(lines, it["src_lines"][0], it["src_lines"][1]):
            todo.append((it["id"], it["src"], ln, desc, new))
    todo = todo[:a.max]
    scratch = tempfile.mkdtemp(prefix="mutate_")
    res = []
    try:
        with cf.ThreadPoolExecutor(max_workers=a.jobs) as ex:
            futs = {ex.submit(run_mutant, a.unit, rel, ln, desc, new, scratch): (iid, rel, ln, desc, new) for iid, rel, ln, desc, new in todo}
            for f in cf.as_completed(futs):
                iid, rel, ln, desc, new = futs[f]
                st, info = f.result()
                if a.baseline_errors and st == "killed:proof" and ("%d errors" % a.baseline_errors) in info:
                    st = "survived"
                res.append((st, iid, rel, ln, desc, new.strip()))
    finally:
        shutil.rmtree(scratch, ignore_errors=True)
    from collections import Counter
    c = Counter(r[0] for r in res)
    print("unit %s: %d mutants: %s" % (a.unit, len(res), dict(c)))
    for st, iid, rel, ln, desc, new in sorted(res):
        if st == "survived":
            print("SURVIVED %s %s:%d  %s   => %s" % (iid, rel, ln, desc, new[:110]))


if __name__ == "__main__":
    main()
