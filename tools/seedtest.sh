#!/bin/sh
# seedtest.sh <patch.diff> <PROPERTY>... : apply a seeded change to /repo, run the checks, undo it
P="$1"; shift
cd /repo || exit 2
[ -z "$(git status --porcelain)" ] || { echo "/repo not clean"; exit 2; }
trap 'git -C /repo checkout -- . ' EXIT INT TERM
git apply "$P" || { echo "patch does not apply"; exit 2; }
cd /verif
for pid in "$@"; do
  echo "--- $pid"
  ./check "$pid" | cut -c1-260
done
