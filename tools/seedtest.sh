#!/bin/sh
# seedtest.sh <patch.diff> <PROPERTY>... : apply a seeded change to /repo, run the checks, undo it
P="$1"; shift
V="$(cd "$(dirname "$0")/.." && pwd)"
R="${VERIF_REPO:-/repo}"
cd "$R" || exit 2
[ -z "$(git status --porcelain)" ] || { echo "$R not clean"; exit 2; }
trap 'git -C "$R" checkout -- . ' EXIT INT TERM
git apply "$P" || { echo "patch does not apply"; exit 2; }
cd "$V"
for pid in "$@"; do
  echo "--- $pid"
  ./check "$pid" | cut -c1-260
done
