#!/bin/sh
# re-run every registered check on /repo's current tree (rewrites evidence/*.json); non-zero if any check is not green
cd /verif
rc=0
for p in $(python3 -c "import json;print(' '.join(c['property_id'] for c in json.load(open('MANIFEST.json'))['checks']))"); do
  ./check $p --tier ${1:-quick} || rc=1
done
exit $rc
