#!/bin/sh
# run every seeded change against the check of the property it breaks (and C04); prints a table
R="${VERIF_REPO:-/repo}"
cd "$(dirname "$0")/.."
V=$(pwd)
for d in $V/seeded/*/; do
  id=$(basename $d)
  pid=$(python3 -c "import json;print(json.load(open('$d/meta.json'))['breaks_property'])")
  if grep -q '"neutralised"' $d/meta.json; then echo "$id $pid NEUTRALISED-BY-A-FIX"; continue; fi
  if ! git -C "$R" apply --check $d/patch.diff 2>/dev/null; then echo "$id $pid PATCH-DOES-NOT-APPLY"; continue; fi
  out=$(tools/seedtest.sh $d/patch.diff $pid 2>&1)
  if echo "$out" | grep -q "^VIOLATION"; then
     v=$(echo "$out" | grep "^VIOLATION" | head -1 | sed 's/replay=[^ ]*//')
     o=$(echo "$out" | grep "^failed obligation" | head -1 | cut -c1-150)
     echo "$id $pid DETECTED :: $v :: $o"
  elif echo "$out" | grep -q "^UNDECIDED"; then echo "$id $pid UNDECIDED :: $(echo "$out" | grep '^UNDECIDED' | head -1 | cut -c1-200)"
  else echo "$id $pid MISSED :: $(echo "$out" | tail -1 | cut -c1-150)"; fi
done
