#!/usr/bin/env python3
"""Generates specs/witness/c02_faults.json: single-fault programs with the ORACLE OF THE PROPERTY (C02/C03).

A valid base program (specs/corpus/base_valid.st: every statement form, both levels of global constants, a function, two
function blocks, a program, a configuration) is accepted by `check`. Each entry of FAULTS plants ONE documented rule's
"Fails" shape at ONE site by a textual substitution; the expected answer is the rule's published problem code (from
compiler/problems/resources/problem-codes.csv), which is what property C02 states - not what the binary happened to
answer. Development aid: run after the base program or the fault list changes; it refuses to write a witness whose
expectation does not hold on the current tree and prints it instead (each such line is an existing defect or a fault
shape the analyzer declares unsupported (P9999); they are listed in DESIGN.md, not silently dropped).

For C03 every fault is additionally placed in a second file next to valid files (the fault must not be masked).
"""
import json
import os
import subprocess
import sys
import tempfile

HERE = os.path.dirname(os.path.abspath(__file__))
VERIF = os.path.dirname(HERE)
sys.path.insert(0, HERE)

U = "missing_v"
# (code, rule, site, old, new)   `old` must occur exactly once in the base program
FAULTS = [
    # --- P0015 every used variable is declared: one use site after the other
    ("P0015", "undeclared variable", "function body, right operand", "add2 := a + b;", "add2 := a + %s;" % U),
    ("P0015", "undeclared variable", "function body, left operand", "add2 := a + b;", "add2 := %s + b;" % U),
    ("P0015", "undeclared variable", "function block body, assignment target", "out1 := in1 + in2;", "%s := in1 + in2;" % U),
    ("P0015", "undeclared variable", "input argument of a function block call", "c(in1 := 1, in2 := res, out1 => res);", "c(in1 := 1, in2 := %s, out1 => res);" % U),
    ("P0015", "undeclared variable", "output argument of a function block call", "c(in1 := 1, in2 := res, out1 => res);", "c(in1 := 1, in2 := res, out1 => %s);" % U),
    ("P0015", "undeclared variable", "argument of a function call", "res := add2(a := 1, b := k);", "res := add2(a := 1, b := %s);" % U),
    ("P0015", "undeclared variable", "IF condition", "IF flag THEN", "IF %s THEN" % U),
    ("P0015", "undeclared variable", "THEN branch", "    res := k;\n  ELSIF", "    res := %s;\n  ELSIF" % U),
    ("P0015", "undeclared variable", "ELSIF condition", "ELSIF k > 2 THEN", "ELSIF %s > 2 THEN" % U),
    ("P0015", "undeclared variable", "ELSIF branch", "res := gconst;", "res := %s;" % U),
    ("P0015", "undeclared variable", "ELSE branch", "res := rconst + 1;", "res := %s + 1;" % U),
    ("P0015", "undeclared variable", "CASE selector", "CASE k OF", "CASE %s OF" % U),
    ("P0015", "undeclared variable", "first CASE group", "    1: res := 1;", "    1: res := %s;" % U),
    ("P0015", "undeclared variable", "second CASE group", "    2, 3: res := k;", "    2, 3: res := %s;" % U),
    ("P0015", "undeclared variable", "CASE ELSE", "  ELSE\n    res := 0;\n  END_CASE;", "  ELSE\n    res := %s;\n  END_CASE;" % U),
    ("P0015", "undeclared variable", "FOR control variable", "FOR k := 1 TO limit BY 1 DO", "FOR %s := 1 TO limit BY 1 DO" % U),
    ("P0015", "undeclared variable", "FOR upper bound", "FOR k := 1 TO limit BY 1 DO", "FOR k := 1 TO %s BY 1 DO" % U),
    ("P0015", "undeclared variable", "FOR lower bound", "FOR k := 1 TO limit BY 1 DO", "FOR k := %s TO limit BY 1 DO" % U),
    ("P0015", "undeclared variable", "FOR step", "FOR k := 1 TO limit BY 1 DO", "FOR k := 1 TO limit BY %s DO" % U),
    ("P0015", "undeclared variable", "FOR body", "    res := res + k;\n  END_FOR;", "    res := res + %s;\n  END_FOR;" % U),
    ("P0015", "undeclared variable", "WHILE condition", "WHILE k < 10 DO", "WHILE %s < 10 DO" % U),
    ("P0015", "undeclared variable", "WHILE body", "    k := k + 1;\n  END_WHILE;", "    k := %s + 1;\n  END_WHILE;" % U),
    ("P0015", "undeclared variable", "REPEAT body", "    k := k - 1;\n  UNTIL", "    k := %s - 1;\n  UNTIL" % U),
    ("P0015", "undeclared variable", "UNTIL condition", "UNTIL k < 0", "UNTIL %s < 0" % U),
    ("P0015", "undeclared variable", "operand of a unary minus", "res := -k + (res * 2);", "res := -%s + (res * 2);" % U),
    ("P0015", "undeclared variable", "inside parentheses", "res := -k + (res * 2);", "res := -k + (%s * 2);" % U),
    ("P0015", "undeclared variable", "array subscript", "res := arr[k] + p.x;", "res := arr[%s] + p.x;" % U),
    ("P0015", "undeclared variable", "subscripted array", "res := arr[k] + p.x;", "res := %s[k] + p.x;" % U),
    ("P0015", "undeclared variable", "structure of a member access", "res := arr[k] + p.x;", "res := arr[k] + %s.x;" % U),
    ("P0015", "undeclared variable", "operand of NOT", "flag := NOT flag AND (k = 1);", "flag := NOT %s AND (k = 1);" % U),
    ("P0015", "undeclared variable", "operand of a comparison", "flag := NOT flag AND (k = 1);", "flag := NOT flag AND (%s = 1);" % U),
    ("P0015", "undeclared variable", "program body (last declaration before the configuration)", "  n := n + 1;\nEND_PROGRAM", "  n := %s + 1;\nEND_PROGRAM" % U),
    ("P0015", "undeclared variable", "a variable of ANOTHER function block is not in scope", "  n := n + 1;\nEND_PROGRAM", "  n := res + 1;\nEND_PROGRAM"),
    # --- structure elements, subranges, enumerations
    ("P0003", "duplicate structure element", "first and last element", "    c : COLOR := GREEN;\n  END_STRUCT;", "    X : COLOR := GREEN;\n  END_STRUCT;"),
    ("P0003", "duplicate structure element", "adjacent elements", "    y : INT;\n", "    x : INT;\n"),
    ("P0003", "duplicate structure element", "two spellings of one name with another element between them (Y, c, y)", "    y : INT;\n    c : COLOR := GREEN;", "    Y : INT;\n    c : COLOR := GREEN;\n    y : REAL;"),
    ("P0003", "duplicate structure element", "two spellings of one name with another element between them (x, Y2, X)", "    y : INT;\n    c : COLOR := GREEN;", "    Y2 : INT;\n    X : COLOR := GREEN;"),
    ("P0005", "duplicate enumeration value", "two spellings of one value with another value between them", "COLOR : (RED, GREEN, BLUE) := RED;", "COLOR : (Red, GREEN, BLUE, RED) := GREEN;"),
    ("P0004", "subrange minimum not below maximum", "type declaration, min > max", "RANGE1 : INT(-5..5);", "RANGE1 : INT(5..-5);"),
    ("P0004", "subrange minimum not below maximum", "type declaration, min = max", "RANGE1 : INT(-5..5);", "RANGE1 : INT(5..5);"),
    ("P0005", "duplicate enumeration value", "first and last value", "COLOR : (RED, GREEN, BLUE) := RED;", "COLOR : (RED, GREEN, BLUE, red) := RED;"),
    ("P0014", "enumeration value not defined", "initial value of a variable", "col : COLOR := BLUE;", "col : COLOR := PURPLE;"),
    ("P0014", "enumeration value not defined", "default of a structure element", "c : COLOR := GREEN;", "c : COLOR := PURPLE;"),
    # --- declared types and function blocks
    ("P0022", "unknown type", "variable of a function block", "  p : PT;\n", "  p : NOSUCHTYPE;\n"),
    ("P0022", "unknown type", "function block instance in a program", "  inst : caller;\n", "  inst : nosuchfb;\n"),
    ("P0021", "function block invocation is not a variable in scope", "function block body", "c(in1 := 1, in2 := res, out1 => res);", "nosuch(in1 := 1, in2 := res, out1 => res);"),
    ("P0021", "function block invocation is not a variable in scope", "program body", "  inst();\n", "  nosuch();\n"),
    # --- function block invocations match the callee
    ("P0007", "named input that the callee does not define", "second argument", "c(in1 := 1, in2 := res, out1 => res);", "c(in1 := 1, bogus := res, out1 => res);"),
    ("P0006", "named and positional arguments mixed", "positional after named", "c(in1 := 1, in2 := res, out1 => res);", "c(in1 := 1, res);"),
    ("P0008", "positional arguments where named ones are required", "one positional argument", "c(in1 := 1, in2 := res, out1 => res);", "c(1);"),
    ("P0009", "output that the callee does not define", "output argument", "c(in1 := 1, in2 := res, out1 => res);", "c(in1 := 1, in2 := res, nothere => res);"),
    # --- tasks, constants, externals
    ("P0011", "task reference not defined", "program configuration", "PROGRAM inst1 WITH tick : main;", "PROGRAM inst1 WITH notask : main;"),
    ("P0016", "constant without initial value", "VAR CONSTANT of a function block", "limit : INT := 3;", "limit : INT;"),
    ("P0017", "constant function block instance", "VAR CONSTANT of a function block", "limit : INT := 3;", "limit : INT := 3;\n  cfb : callee;"),
    ("P0018", "external of a constant global not declared constant", "constant global of the CONFIGURATION", "VAR_EXTERNAL CONSTANT\n  gconst : INT;\n  rconst : INT;\nEND_VAR", "VAR_EXTERNAL CONSTANT\n  rconst : INT;\nEND_VAR\nVAR_EXTERNAL\n  gconst : INT;\nEND_VAR"),
    ("P0018", "external of a constant global not declared constant", "constant global of the RESOURCE", "VAR_EXTERNAL CONSTANT\n  gconst : INT;\n  rconst : INT;\nEND_VAR", "VAR_EXTERNAL CONSTANT\n  gconst : INT;\nEND_VAR\nVAR_EXTERNAL\n  rconst : INT;\nEND_VAR"),
]
C02_UNITS = ["enum_alias_walk", "expr_kind_resolver", "rule_fb_invocation", "rule_symbolic_var", "rules_local", "rules_sets", "stages_analyze", "stages_resolve",
             "symbol_table"] + ["recurse_visit_%d" % i for i in range(1, 7)] + ["recurse_fold_%d" % i for i in range(1, 7)]
C03_UNITS = ["cli_commands", "late_bound_dups", "parse_pipeline", "project_semantic", "source_cache", "symbol_graph", "toposort_apply", "toposort_graph", "type_table_dups"]

VALID_A = "FUNCTION_BLOCK other_a\nVAR\n t : INT;\nEND_VAR\n t := t + 1;\nEND_FUNCTION_BLOCK\n"
VALID_Z = "TYPE\n OTHER_T : (U1, U2) := U1;\nEND_TYPE\nPROGRAM other_z\nVAR\n w : OTHER_T;\n t : INT;\nEND_VAR\n t := 0;\nEND_PROGRAM\n"


def main():
    import witness
    base = open(os.path.join(VERIF, "specs", "corpus", "base_valid.st"), encoding="utf-8").read()
    binp, _ = witness.build_ironplcc()
    out = []
    skipped = []
    forpat = "|".join(u + "/" for u in C02_UNITS + C03_UNITS)
    ok_base = {"for": forpat, "property": ["C02", "C03"], "name": "the valid base program (no rule violated) is accepted", "kind": "check", "files": {"base.st": base}, "expect": "accept"}
    ok_multi = {"for": forpat, "property": ["C02", "C03"], "name": "the valid base program between two other valid files is accepted", "kind": "check",
                "files": {"a.st": VALID_A, "m.st": base, "z.st": VALID_Z}, "expect": "accept"}
    cands = [ok_base, ok_multi]
    for code, rule, site, old, new in FAULTS:
        if base.count(old) != 1:
            print("BAD FAULT (site not unique: %d): %s / %s" % (base.count(old), rule, site))
            return 2
        text = base.replace(old, new)
        cands.append({"for": forpat, "property": ["C02", "C03"], "name": "single fault: %s (%s) is reported with %s" % (rule, site, code), "kind": "check",
                      "files": {"fault.st": text}, "expect": "reject", "must_have": [code]})
        cands.append({"for": "|".join(u + "/" for u in C03_UNITS + C02_UNITS), "property": ["C03", "C02"],
                      "name": "the fault is not masked by accompanying valid files: %s (%s)" % (rule, site), "kind": "check",
                      "files": {"a.st": VALID_A, "m.st": text, "z.st": VALID_Z}, "expect": "reject", "must_have": [code]})
    for c in cands:
        rep, obs = witness.run_candidate(c)
        if rep:
            skipped.append((c["name"], obs.get("mismatches"), obs.get("codes")))
        else:
            out.append(c)
    json.dump(out, open(os.path.join(VERIF, "specs", "witness", "c02_faults.json"), "w"), indent=1)
    print("wrote %d witnesses; %d expectations do not hold on the current tree:" % (len(out), len(skipped)))
    for s in skipped:
        print("   NOT HELD:", s)
    return 0


if __name__ == "__main__":
    sys.exit(main())
